//go:build verif

package checks

import (
	"fmt"
	"strings"
	"testing"

	"github.com/antchfx/xpath"
	"pgregory.net/rapid"

	"verif/internal/harness"
	"verif/internal/xast"
	"verif/internal/xdoc"
	"verif/internal/xgen"
	"verif/internal/xref"
)

// C10 — expressions parse with XPath 1.0 precedence, associativity and token rules.

const ruleC10 = "enum (exhaustive): every unparenthesised chain o0 op1 o1 ... opk ok over the 14 binary operators (or and = != < <= > >= + - * div mod |), k <= 5 (quick) / 6 (thorough), operands distinct names; plus unary-minus placements (none, -, --) on every operand for k <= 3 and path-tier and primary operands (a/b, //a, a[1], (a)[1]/b, (a)//b, (a)[1]//@b, 1.5, 'a', count(a), p:a, @q:a, a/.., following-sibling::p:a, a/text()) for k <= 2, and the bare root '/' in every operand position where the token rules let an operator follow it, k <= 2. A chain that the engine rejects is a failure unless it holds a '|' over a string, a number or a scalar function call (grammatical, but a type error an implementation may report when it compiles). Oracle (round-trip): the engine's parse-tree dump (verif hook) of the text equals the dump of a table-driven precedence-climbing reference parse (all operators left-associative, unary minus between multiplicative and union). rapid: any expression e from the node-set and scalar generators: dump(engine parse of Render(e)) = Dump(e); for whitespace placements w (blank, tab, CR, LF, CRLF) permitted by the longest-match rule, dump(w(e)) = dump(e) and value(w(e)) = value(e); for the abbreviation expansion x(e) (a -> child::a, @a -> attribute::a, . -> self::node(), .. -> parent::node(), // -> /descendant-or-self::node()/), dump(x(e)) = dump(e) and sequence(x(e)) = sequence(e). Non-trivial: a chain with >= 2 operators (two tiers or two of one tier); a whitespace variant with >= 1 separator removed or replaced; distinct by text."

var (
	uC10Chains = harness.NewUnit("C10", "enum-operator-chains", ruleC10)
	uC10Round  = harness.NewUnit("C10", "rapid-roundtrip-whitespace-abbrev", ruleC10)
)

func init() {
	harness.RegisterOracle("C10/chain", oracleC10Chain)
	harness.RegisterOracle("C10/roundtrip", func(l *harness.Live) *harness.Failure {
		_, f := oracleC10Round(l)
		return f
	})
}

var binOps = []string{"or", "and", "=", "!=", "<", "<=", ">", ">=", "+", "-", "*", "div", "mod", "|"}

// oracleC10Chain: l.Expr is the chain text, l.AST the reference parse.
func oracleC10Chain(l *harness.Live) *harness.Failure {
	got, err := xpath.VerifParseDump(l.Expr, nil)
	if err != nil {
		if xast.IllTypedUnion(l.AST) {
			return nil // grammatical, but a '|' over a string or a number: rejecting it is no grouping error
		}
		return harness.Failf(xast.Dump(l.AST), "error: "+err.Error(), "the engine rejects a valid operator chain")
	}
	if want := xast.Dump(l.AST); got != want {
		return harness.Failf(want, got, "operator chain grouped differently from the XPath 1.0 grammar")
	}
	return nil
}

func nameStep(n string) xast.Expr {
	return &xast.Path{Steps: []interface{}{&xast.Step{Axis: "child", Test: xast.NodeTest{Kind: "name", Local: n}, Abbr: true}}}
}

// parseChainNeg is the reference parser for chains whose operands may carry unary minus signs.
func parseChainNeg(opnds []xast.Expr, negs []int, ops []string) (e xast.Expr, ok bool) {
	i := 0 // index of the next operand
	ok = true
	var unary func() xast.Expr
	unary = func() xast.Expr {
		n := negs[i]
		x := opnds[i]
		i++
		for i-1 < len(ops) && ops[i-1] == "|" {
			if negs[i] != 0 {
				ok = false // a | -b is not XPath 1.0 syntax
			}
			x = &xast.Bin{Op: "|", L: x, R: opnds[i]}
			i++
		}
		for ; n > 0; n-- {
			x = &xast.Neg{X: x}
		}
		return x
	}
	var climb func(minPrec int) xast.Expr
	climb = func(minPrec int) xast.Expr {
		lhs := unary()
		for i-1 < len(ops) && xast.Prec(ops[i-1]) >= minPrec {
			op := ops[i-1]
			rhs := climb(xast.Prec(op) + 1)
			lhs = &xast.Bin{Op: op, L: lhs, R: rhs}
		}
		return lhs
	}
	e = climb(0)
	return e, ok
}

func TestC10Chains(t *testing.T) {
	maxK := 5
	if harness.Tier() == "thorough" {
		maxK = 6
	}
	shard, shards := harness.Shard()
	names := []string{"a", "b", "c", "d", "e", "f", "g"}
	var total int64
	idx := 0
	run := func(text string, ref xast.Expr, nontrivial bool, label string) {
		l := &harness.Live{Property: "C10", Check: "C10/chain", Expr: text, AST: ref}
		if f := oracleC10Chain(l); f != nil {
			harness.Report(t, uC10Chains, l, f)
		}
		total++
		uC10Chains.Case(harness.Hash64(text), nontrivial, []string{label}, func() interface{} {
			return map[string]interface{}{"expr": text, "parse": xast.Dump(ref)}
		})
	}
	// plain chains
	for k := 1; k <= maxK; k++ {
		count := 1
		for i := 0; i < k; i++ {
			count *= len(binOps)
		}
		ops := make([]string, k)
		opnds := make([]xast.Expr, k+1)
		for i := range opnds {
			opnds[i] = nameStep(names[i])
		}
		for c := 0; c < count; c++ {
			idx++
			if idx%shards != shard {
				continue
			}
			x := c
			var sb strings.Builder
			sb.WriteString(names[0])
			for i := 0; i < k; i++ {
				ops[i] = binOps[x%len(binOps)]
				x /= len(binOps)
				sb.WriteString(" " + ops[i] + " " + names[i+1])
			}
			run(sb.String(), xast.ParseChain(opnds, ops), k >= 2, fmt.Sprintf("chain:k=%d", k))
		}
	}
	// unary minus placements, k <= 3
	for k := 1; k <= 3; k++ {
		count := 1
		for i := 0; i < k; i++ {
			count *= len(binOps)
		}
		negCount := 1
		for i := 0; i <= k; i++ {
			negCount *= 3
		}
		ops := make([]string, k)
		negs := make([]int, k+1)
		opnds := make([]xast.Expr, k+1)
		for i := range opnds {
			opnds[i] = nameStep(names[i])
		}
		for c := 0; c < count; c++ {
			for nc := 1; nc < negCount; nc++ {
				idx++
				if idx%shards != shard {
					continue
				}
				x, y := c, nc
				for i := 0; i < k; i++ {
					ops[i] = binOps[x%len(binOps)]
					x /= len(binOps)
				}
				var sb strings.Builder
				for i := 0; i <= k; i++ {
					negs[i] = y % 3
					y /= 3
					if i > 0 {
						sb.WriteString(" " + ops[i-1] + " ")
					}
					sb.WriteString(strings.Repeat("-", negs[i]) + names[i])
				}
				ref, ok := parseChainNeg(opnds, negs, ops)
				if !ok {
					continue
				}
				run(sb.String(), ref, true, "chain:unary-minus")
			}
		}
	}
	// path-tier operands, k <= 2
	pathOpnds := []func(n string) xast.Expr{
		nameStep,
		func(n string) xast.Expr {
			return &xast.Path{Steps: []interface{}{&xast.Step{Axis: "child", Test: xast.NodeTest{Kind: "name", Local: n}, Abbr: true}, &xast.Step{Axis: "child", Test: xast.NodeTest{Kind: "name", Local: "z"}, Abbr: true}}}
		},
		func(n string) xast.Expr {
			return &xast.Path{Abs: true, Steps: []interface{}{xast.DSlash{}, &xast.Step{Axis: "child", Test: xast.NodeTest{Kind: "name", Local: n}, Abbr: true}}}
		},
		func(n string) xast.Expr {
			return &xast.Path{Steps: []interface{}{&xast.Step{Axis: "child", Test: xast.NodeTest{Kind: "name", Local: n}, Abbr: true, Preds: []xast.Expr{&xast.Num{Lit: "1"}}}}}
		},
		func(n string) xast.Expr {
			return &xast.Path{Start: &xast.Filter{Primary: &xast.Group{X: nameStep(n)}, Preds: []xast.Expr{&xast.Num{Lit: "1"}}}, Steps: []interface{}{&xast.Step{Axis: "child", Test: xast.NodeTest{Kind: "name", Local: "z"}, Abbr: true}}}
		},
		func(n string) xast.Expr { return &xast.Num{Lit: "1.5"} },
		func(n string) xast.Expr { return &xast.Str{S: n} },
		// name tests whose last token is a qualified name, an attribute, an abbreviated or
		// explicit step: what follows them is an operator NAME (and, or, div, mod) half of the time
		func(n string) xast.Expr {
			return &xast.Path{Steps: []interface{}{&xast.Step{Axis: "child", Test: xast.NodeTest{Kind: "name", Prefix: "p", Local: n}, Abbr: true}}}
		},
		func(n string) xast.Expr {
			return &xast.Path{Steps: []interface{}{&xast.Step{Axis: "attribute", Test: xast.NodeTest{Kind: "name", Prefix: "q", Local: n}, Abbr: true}}}
		},
		func(n string) xast.Expr {
			return &xast.Path{Steps: []interface{}{&xast.Step{Axis: "child", Test: xast.NodeTest{Kind: "name", Local: n}, Abbr: true}, &xast.Step{Axis: "parent", Test: xast.NodeTest{Kind: "node"}, Abbr: true}}}
		},
		func(n string) xast.Expr {
			return &xast.Path{Steps: []interface{}{&xast.Step{Axis: "following-sibling", Test: xast.NodeTest{Kind: "name", Prefix: "p", Local: n}}}}
		},
		func(n string) xast.Expr {
			return &xast.Path{Steps: []interface{}{&xast.Step{Axis: "child", Test: xast.NodeTest{Kind: "name", Local: n}, Abbr: true}, &xast.Step{Axis: "child", Test: xast.NodeTest{Kind: "text"}, Abbr: true}}}
		},
		func(n string) xast.Expr { return &xast.Call{Name: "count", Args: []xast.Expr{nameStep(n)}} },
		func(n string) xast.Expr {
			return &xast.Path{Start: &xast.Group{X: nameStep(n)}, Steps: []interface{}{xast.DSlash{}, &xast.Step{Axis: "child", Test: xast.NodeTest{Kind: "name", Local: "z"}, Abbr: true}}}
		},
		func(n string) xast.Expr {
			return &xast.Path{Start: &xast.Filter{Primary: &xast.Group{X: nameStep(n)}, Preds: []xast.Expr{&xast.Num{Lit: "1"}}}, Steps: []interface{}{xast.DSlash{}, &xast.Step{Axis: "attribute", Test: xast.NodeTest{Kind: "name", Local: "z"}, Abbr: true}}}
		},
	}
	for k := 1; k <= 2; k++ {
		count := 1
		for i := 0; i < k; i++ {
			count *= len(binOps)
		}
		pc := 1
		for i := 0; i <= k; i++ {
			pc *= len(pathOpnds)
		}
		ops := make([]string, k)
		opnds := make([]xast.Expr, k+1)
		for c := 0; c < count; c++ {
			for pcx := 1; pcx < pc; pcx++ {
				idx++
				if idx%shards != shard {
					continue
				}
				x, y := c, pcx
				for i := 0; i < k; i++ {
					ops[i] = binOps[x%len(binOps)]
					x /= len(binOps)
				}
				var sb strings.Builder
				for i := 0; i <= k; i++ {
					opnds[i] = pathOpnds[y%len(pathOpnds)](names[i])
					y /= len(pathOpnds)
					if i > 0 {
						sb.WriteString(" " + ops[i-1] + " ")
					}
					sb.WriteString(xast.Render(opnds[i]))
				}
				run(sb.String(), xast.ParseChain(opnds, ops), true, "chain:path-operands")
			}
		}
	}
	// the bare root '/' as an operand, k <= 2. After '/', a name or '*' would be a step of the
	// same path (the disambiguation rule of 3.7), so on its left only the symbol operators other
	// than '*' can follow it; on the right every operator can precede it.
	rootOp := func() xast.Expr { return &xast.Path{Abs: true} }
	afterRoot := map[string]bool{"=": true, "!=": true, "<": true, "<=": true, ">": true, ">=": true, "+": true, "-": true, "|": true}
	for k := 1; k <= 2; k++ {
		count := 1
		for i := 0; i < k; i++ {
			count *= len(binOps)
		}
		ops := make([]string, k)
		opnds := make([]xast.Expr, k+1)
		for c := 0; c < count; c++ {
			x := c
			for i := 0; i < k; i++ {
				ops[i] = binOps[x%len(binOps)]
				x /= len(binOps)
			}
			for mask := 1; mask < 1<<(k+1); mask++ {
				ok := true
				for i := 0; i <= k; i++ {
					if mask&(1<<i) != 0 {
						opnds[i] = rootOp()
						if i < k && !afterRoot[ops[i]] {
							ok = false
						}
					} else {
						opnds[i] = nameStep(names[i])
					}
				}
				if !ok {
					continue
				}
				idx++
				if idx%shards != shard {
					continue
				}
				var sb strings.Builder
				for i := 0; i <= k; i++ {
					if i > 0 {
						sb.WriteString(" " + ops[i-1] + " ")
					}
					sb.WriteString(xast.Render(opnds[i]))
				}
				run(sb.String(), xast.ParseChain(opnds, ops), true, "chain:root-operand")
			}
		}
	}
	uC10Chains.SetExhaustive(total)
	uC10Chains.Done(total)
}

// valueOf evaluates text on (doc, ctx): the raw Select sequence for node-set
// expressions, the Evaluate value otherwise.
func valueOf(l *harness.Live, text string, nodeSet bool) (harness.Value, *harness.Failure) {
	x := *l
	x.Expr = text
	var v harness.Value
	var f *harness.Failure
	if nodeSet {
		var ids []int
		ids, f = engineSelect(&x)
		v = harness.Value{Kind: "nodes", IDs: ids}
	} else {
		v, f = engineEval(&x)
	}
	if f != nil && f != cappedFailure && strings.HasPrefix(f.Got, "panic[") {
		// Evaluation aborts (ill-typed operands such as boolean = node-set are
		// C15's business). For C10 what matters is that every spelling of the
		// expression behaves alike, so "aborts" is a value of its own.
		return harness.Value{Kind: "panic"}, nil
	}
	return v, f
}

type c10Info struct {
	nontrivial bool
	labels     []string
	variant    string
}

func sepsOf(l *harness.Live, n int) []string {
	out := make([]string, n)
	raw, _ := l.Params["seps"].([]interface{})
	if s, ok := l.Params["seps"].([]string); ok {
		copy(out, s)
		return out
	}
	for i := range out {
		if i < len(raw) {
			out[i], _ = raw[i].(string)
		}
	}
	return out
}

func oracleC10Round(l *harness.Live) (c10Info, *harness.Failure) {
	var info c10Info
	want := xast.Dump(l.AST)
	toks := xast.Tokens(l.AST)
	canon := xast.Render(l.AST)
	d0, err := xpath.VerifParseDump(canon, nil)
	if err != nil {
		if xast.IllTypedUnion(l.AST) {
			return info, nil
		}
		return info, harness.Failf(want, "error: "+err.Error(), "the engine rejects a valid expression")
	}
	if d0 != want {
		return info, harness.Failf(want, d0, "parse tree differs from the expression's structure (round-trip)")
	}
	nodeSet, _ := l.Params["node_set"].(bool)
	v0, f := valueOf(l, canon, nodeSet)
	if f != nil {
		return info, f
	}
	// whitespace variant
	seps := sepsOf(l, len(toks)-1)
	changed := 0
	variant := xast.Join(toks, func(i int) string { return seps[i] })
	if e, ok := l.Params["edges"].([]interface{}); ok && len(e) == 2 {
		variant = fmt.Sprint(e[0]) + variant + fmt.Sprint(e[1])
	} else if e, ok := l.Params["edges"].([]string); ok && len(e) == 2 {
		variant = e[0] + variant + e[1]
	}
	info.variant = variant
	if variant != canon {
		changed = 1
	}
	dw, err := xpath.VerifParseDump(variant, nil)
	if err != nil {
		return info, harness.Failf(want, "error: "+err.Error(), fmt.Sprintf("whitespace variant %q is rejected", variant))
	}
	if dw != want {
		return info, harness.Failf(want, dw, fmt.Sprintf("whitespace variant %q parses differently", variant))
	}
	vw, f := valueOf(l, variant, nodeSet)
	if f != nil {
		f.Note = fmt.Sprintf("whitespace variant %q: %s", variant, f.Note)
		return info, f
	}
	if !vw.Equal(v0) {
		return info, harness.Failf(v0.String(), vw.String(), fmt.Sprintf("whitespace variant %q has a different value", variant))
	}
	// abbreviation expansion
	for _, x := range []struct{ name, text string }{
		{"expanded steps", xast.Render(xast.Expand(l.AST))},
		{"expanded steps and //", xast.RenderExpanded(l.AST)},
		{"abbreviated steps", xast.Render(xast.Abbreviate(l.AST))},
	} {
		if x.text == canon {
			continue
		}
		info.labels = append(info.labels, "abbrev-variant-differs")
		dx, err := xpath.VerifParseDump(x.text, nil)
		if err != nil {
			return info, harness.Failf(want, "error: "+err.Error(), fmt.Sprintf("%s %q is rejected", x.name, x.text))
		}
		if dx != want {
			return info, harness.Failf(want, dx, fmt.Sprintf("%s %q parses differently from %q", x.name, x.text, canon))
		}
		vx, f := valueOf(l, x.text, nodeSet)
		if f != nil {
			f.Note = fmt.Sprintf("%s %q: %s", x.name, x.text, f.Note)
			return info, f
		}
		if !vx.Equal(v0) {
			return info, harness.Failf(v0.String(), vx.String(), fmt.Sprintf("%s %q yields a different sequence/value than %q", x.name, x.text, canon))
		}
	}
	info.nontrivial = changed > 0
	return info, nil
}

func TestC10RoundTrip(t *testing.T) {
	wsPool := []string{"", "", " ", "\t", "\n ", "  ", "\r", "\r\n", "\n"} // the four characters of S: #x20, #x9, #xD, #xA
	runRapid(t, uC10Round, func(rt *rapid.T) {
		o := xgen.DefaultDoc()
		hostile := rapid.IntRange(0, 4).Draw(rt, "hostile-names") == 0
		if hostile {
			// names that contain '-', '.', '_' and digits: the scanner must keep them apart from operators and numbers
			o.ElNames = []string{"a-1", "b.c", "_x", "a1", "div", "and-x", "é1", "中文", "имя-x", "n" + strings.Repeat("ab", 33)} // the last one is 67 bytes long
			o.AtNames = []string{"x-y", "y.1", "ключ"}
		}
		doc := xgen.Doc(rt, o)
		ctx := xgen.Context(rt, doc, 4)
		g := xgen.NewG(rt, doc)
		if hostile {
			g.ElNames, g.AtNames = o.ElNames, o.AtNames
		}
		var e xast.Expr
		nodeSet := true
		label := ""
		switch rapid.IntRange(0, 9).Draw(rt, "fragment") {
		case 0, 1, 2, 3:
			e = anyNodeSetExpr(g, rt, ctx)
			label = "fragment:node-set"
		case 4:
			e, _ = g.BoolExpr(ctx, 2)
			// error operands would abort both sides alike; keep values comparable
			if xast.HasCall(e, "contains") {
				e = g.Comparison(ctx)
			}
			nodeSet = false
			label = "fragment:boolean"
		case 5, 6:
			e = g.Arith(ctx, 3)
			nodeSet = false
			label = "fragment:arithmetic"
		case 7:
			e = g.StrTop(ctx, 2)
			nodeSet = false
			label = "fragment:string"
		default:
			// mixed operator expression over paths and literals: a | b, a + b * c ...
			n := rapid.IntRange(1, 4).Draw(rt, "chainlen")
			opnds := make([]xast.Expr, n+1)
			ops := make([]string, n)
			for i := range opnds {
				opnds[i] = g.FlatPath(xref.NodeSet{ctx})
			}
			for i := range ops {
				ops[i] = rapid.SampledFrom(binOps).Draw(rt, "chainop")
			}
			e = xast.ParseChain(opnds, ops)
			nodeSet = false
			if b, ok := e.(*xast.Bin); ok && b.Op == "|" {
				nodeSet = true
			}
			label = "fragment:operator-chain"
		}
		toks := xast.Tokens(e)
		seps := make([]string, len(toks)-1)
		for i := range seps {
			seps[i] = rapid.SampledFrom(wsPool).Draw(rt, "ws")
		}
		// leading / trailing white space is optional too
		edges := []string{rapid.SampledFrom(wsPool).Draw(rt, "lead"), rapid.SampledFrom(wsPool).Draw(rt, "trail")}
		l := &harness.Live{Property: "C10", Check: "C10/roundtrip", Doc: doc, Ctx: ctx, AST: e, Expr: xast.Render(e), Flavour: flavourOf(rt),
			Params: map[string]interface{}{"seps": seps, "node_set": nodeSet, "edges": edges}}
		info, f := oracleC10Round(l)
		if f != nil {
			if inconclusive(uC10Round, f) {
				return
			}
			harness.Report(rt, uC10Round, l, f)
		}
		labels := append(info.labels, label)
		if hostile {
			labels = append(labels, "names:hostile")
		}
		uC10Round.Case(harness.Hash64(info.variant), info.nontrivial, labels, func() interface{} {
			return map[string]interface{}{"expr": l.Expr, "whitespace_variant": info.variant, "expanded": xast.RenderExpanded(e), "parse": xast.Dump(e)}
		})
	})
	_ = xdoc.NS
}
