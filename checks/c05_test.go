package checks

import (
	"encoding/json"
	"fmt"
	"os"
	"path/filepath"
	"regexp"
	"strings"
	"sync"
	"testing"

	"github.com/antchfx/xpath"
	"pgregory.net/rapid"

	"verif/internal/harness"
	"verif/internal/xast"
	"verif/internal/xdoc"
	"verif/internal/xgen"
)

// C05 — one compiled expression may be used from many goroutines at once.

const ruleC05 = "rapid under the race detector (-race build, GOMAXPROCS=all cores): expression (union of all fragments incl. unconstrained ones, function calls with closure-captured arguments, string-join, matches()/replace() through the shared pattern cache) x document x g in 2..8 goroutines released by a start barrier x per-goroutine context and action (Select / Evaluate on the SHARED *Expr, or Compile of the same text followed by Evaluate - half of the compiling goroutines first compile a probe //N/@N whose name N consists of two CJK letters drawn afresh, so that several goroutines meet characters no Compile of the process has seen at the same moment; one case in eight with element and attribute names of letters drawn afresh from four scripts) x r in 3..20 repetitions; plus two iterators of the shared expression advanced alternately. Oracle: (1) the race detector's log does not grow during the case, (2) no goroutine panics differently from the sequential run and the process survives (a dying process is attributed through the case journal), (3) every repetition of every goroutine observes exactly what a freshly compiled expression returns sequentially, and for regex calls on literal arguments that sequential value equals the one computed independently with Go's regexp (what the call returns when run alone in a process). Non-trivial: >= 2 goroutines on one *Expr and the expression has a stateful operator or a function call; distinct by (expression, document, goroutine plan). The harness does not own the scheduler: interleavings are sampled, not enumerated."

var (
	uC05        = harness.NewUnit("C05", "rapid-goroutines", ruleC05)
	raceEnabled = false
)

func init() {
	harness.RegisterOracle("C05/concurrent", func(l *harness.Live) *harness.Failure {
		// a race needs luck with the schedule: a replay tries several times
		for i := 0; i < 20; i++ {
			if _, f := oracleC05(l); f != nil {
				return f
			}
		}
		return nil
	})
}

type gPlan struct {
	Op  string `json:"op"` // select | evaluate | compile | interleave
	Ctx int    `json:"ctx"`
	// Plain: this goroutine uses the navigator without the optional NamespaceURL() method
	Plain bool `json:"plain,omitempty"`
	// Probe (compile only): a name of letters no Compile of this process has met yet; in the
	// concurrent phase the goroutine compiles //Probe/@Probe before the shared text
	Probe string `json:"probe,omitempty"`
}

func planOf(l *harness.Live) (plans []gPlan, reps int) {
	b, _ := json.Marshal(l.Params["plan"])
	_ = json.Unmarshal(b, &plans)
	switch r := l.Params["reps"].(type) {
	case int:
		reps = r
	case float64:
		reps = int(r)
	}
	if reps <= 0 {
		reps = 5
	}
	return
}

// raceLogSize is the total size of this process's race-detector log files.
func raceLogSize() int64 {
	gr := os.Getenv("GORACE")
	i := strings.Index(gr, "log_path=")
	if i < 0 {
		return 0
	}
	p := strings.Fields(gr[i+len("log_path="):])[0]
	var total int64
	matches, _ := filepath.Glob(fmt.Sprintf("%s.%d*", p, os.Getpid()))
	for _, m := range matches {
		if st, err := os.Stat(m); err == nil {
			total += st.Size()
		}
	}
	return total
}

func raceLogTail() string {
	gr := os.Getenv("GORACE")
	i := strings.Index(gr, "log_path=")
	if i < 0 {
		return ""
	}
	p := strings.Fields(gr[i+len("log_path="):])[0]
	matches, _ := filepath.Glob(fmt.Sprintf("%s.%d*", p, os.Getpid()))
	for _, m := range matches {
		b, _ := os.ReadFile(m)
		s := string(b)
		if j := strings.LastIndex(s, "WARNING: DATA RACE"); j >= 0 {
			s = s[j:]
		}
		lines := strings.Split(s, "\n")
		var keep []string
		for _, ln := range lines {
			if strings.Contains(ln, "antchfx/xpath") || strings.HasPrefix(ln, "WARNING") || strings.HasPrefix(ln, "Read at") || strings.HasPrefix(ln, "Write at") || strings.HasPrefix(ln, "Previous") {
				keep = append(keep, strings.TrimSpace(ln))
			}
			if len(keep) > 14 {
				break
			}
		}
		return strings.Join(keep, " | ")
	}
	return ""
}

func runPlan(e *xpath.Expr, text string, l *harness.Live, p gPlan, concurrent bool) string {
	d := l.Doc
	flav := flavourFor(l, p.Plain)
	ctx := d.Nodes[p.Ctx%len(d.Nodes)]
	switch p.Op {
	case "select":
		obs, _ := observe(e, d, flav, ctx, action{Op: "select"})
		return obs
	case "compile":
		var e2 *xpath.Expr
		var err error
		if concurrent && p.Probe != "" {
			pt := "//" + p.Probe + "/@" + p.Probe
			func() {
				defer func() {
					if r := recover(); r != nil {
						err = fmt.Errorf("panic: %v", r)
					}
				}()
				e2, err = xpath.Compile(pt)
			}()
			if err != nil || e2 == nil {
				return "compile error for " + pt + ": " + fmt.Sprint(err)
			}
		}
		func() {
			defer func() {
				if r := recover(); r != nil {
					err = fmt.Errorf("panic: %v", r)
				}
			}()
			if l.HasNS {
				e2, err = xpath.CompileWithNS(text, l.NSMap)
			} else {
				e2, err = xpath.Compile(text)
			}
		}()
		if err != nil || e2 == nil {
			return "compile error: " + fmt.Sprint(err)
		}
		obs, _ := observe(e2, d, flav, ctx, action{Op: "evaluate"})
		return obs
	case "interleave":
		// two live iterators of the shared expression advanced alternately
		var out []int
		panicked := ""
		func() {
			defer func() {
				if r := recover(); r != nil {
					panicked = "panic: " + fmt.Sprint(r)
				}
			}()
			a := e.Select(d.Nav(flav, ctx, &xdoc.Budget{Limit: 3000000}))
			b := e.Select(d.Nav(flav, ctx, &xdoc.Budget{Limit: 3000000}))
			for i := 0; i < 2000; i++ {
				ma, mb := a.MoveNext(), b.MoveNext()
				if ma != mb {
					out = append(out, -777)
					return
				}
				if !ma {
					return
				}
				na, nb := xdoc.NodeOf(a.Current()), xdoc.NodeOf(b.Current())
				if na != nb {
					out = append(out, -778)
					return
				}
				out = append(out, na.ID)
			}
		}()
		if panicked != "" {
			return panicked
		}
		return fmt.Sprint("nodes", out)
	default:
		obs, _ := observe(e, d, flav, ctx, action{Op: "evaluate"})
		return obs
	}
}

type c05Info struct {
	nontrivial bool
	labels     []string
}

func oracleC05(l *harness.Live) (c05Info, *harness.Failure) {
	var info c05Info
	plans, reps := planOf(l)
	shared, f := compileLive(l)
	if f != nil {
		return info, f
	}
	// sequential expectations from freshly compiled expressions
	want := make([]string, len(plans))
	for i, p := range plans {
		fresh, f := compileLive(l)
		if f != nil {
			return info, f
		}
		if p.Op == "interleave" {
			// expectation: the plain sequence - its first 2000 nodes, which is as far as the
			// two interleaved iterators are advanced
			var ids []int
			pan := ""
			func() {
				defer func() {
					if r := recover(); r != nil {
						pan = "panic: " + fmt.Sprint(r)
					}
				}()
				it := fresh.Select(l.Doc.Nav(flavourFor(l, p.Plain), l.Doc.Nodes[p.Ctx%len(l.Doc.Nodes)], &xdoc.Budget{Limit: 3000000}))
				for k := 0; k < 2000 && it.MoveNext(); k++ {
					ids = append(ids, xdoc.NodeOf(it.Current()).ID)
				}
			}()
			want[i] = fmt.Sprint("nodes", ids)
			if pan != "" {
				want[i] = pan
			}
			continue
		}
		want[i] = runPlan(fresh, l.Expr, l, p, false)
		if alone, _ := l.Params["alone"].(string); alone != "" && want[i] != alone {
			return info, harness.Failf(alone, want[i], "a regex call on literals: the sequential result differs from the value the call has when it is the only one ever made (computed with Go's regexp) - something remembered from an earlier call leaks into it")
		}
	}
	if xast.HasCall(l.AST, "matches", "replace") {
		// The sequential runs above have filled the shared pattern cache. Start the concurrent
		// phase with an empty (and small) one - a client is entitled to install its own - so
		// that misses, inserts and capacity resets happen while other goroutines read.
		saved := xpath.RegexpCache
		xpath.RegexpCache = xpath.NewLoadingCache(func(key interface{}) (interface{}, error) { return regexp.Compile(key.(string)) }, 2)
		defer func() { xpath.RegexpCache = saved }()
	}
	before := raceLogSize()
	got := make([][]string, len(plans))
	var wg sync.WaitGroup
	start := make(chan struct{})
	for i := range plans {
		wg.Add(1)
		go func(i int) {
			defer wg.Done()
			defer func() {
				if r := recover(); r != nil {
					got[i] = append(got[i], fmt.Sprint("goroutine panic: ", r))
				}
			}()
			<-start
			for r := 0; r < reps; r++ {
				got[i] = append(got[i], runPlan(shared, l.Expr, l, plans[i], true))
			}
		}(i)
	}
	close(start)
	wg.Wait()
	if after := raceLogSize(); after > before {
		return info, harness.Failf("no data race", "race detector report: "+raceLogTail(), "the race detector reported a data race while %d goroutines shared one compiled expression", len(plans))
	}
	for i := range plans {
		for r, o := range got[i] {
			if o != want[i] {
				return info, harness.Failf(want[i], o, "goroutine %d (%s at #%d), repetition %d: result differs from the sequential result", i, plans[i].Op, plans[i].Ctx%len(l.Doc.Nodes), r+1)
			}
		}
	}
	stateful := false
	for ax := range xast.AxesUsed(l.AST) {
		if ax != "child" && ax != "attribute" && ax != "self" {
			stateful = true
		}
	}
	hasCall := false
	xast.Walk(l.AST, func(x xast.Expr) {
		if c, ok := x.(*xast.Call); ok {
			hasCall = true
			info.labels = append(info.labels, "fn:"+c.Name)
		}
	})
	info.nontrivial = len(plans) >= 2 && (stateful || hasCall)
	info.labels = append(info.labels, fmt.Sprintf("goroutines:%d", len(plans)))
	return info, nil
}

var regexPatterns = []string{"a", "^a+$", "(a)(b)?", "[0-9]+", "a|b", "(?i)T", ".", "x*"}

func TestC05Rapid(t *testing.T) {
	if !raceEnabled {
		t.Log("note: not a -race build; only results are compared")
	}
	journal := harness.OpenJournal()
	runRapid(t, uC05, func(rt *rapid.T) {
		base := xgen.DefaultDoc()
		// one case in six: prefixes and namespaces in the document, prefixed name tests, a
		// namespace map, and the goroutines divided between the two navigator flavours
		nsMode := rapid.IntRange(0, 5).Draw(rt, "nsmode") == 5
		var nsmap map[string]string
		if nsMode {
			base.ElNames = xgen.ElNames2
			base.NS = &xgen.NSOpts{Prefixes: []string{"", "p", "q", "r"}, URIs: []string{"", "u1", "u2"}}
			nsmap = map[string]string{"p": rapid.SampledFrom([]string{"u1", "u2"}).Draw(rt, "bind-p"), "q": rapid.SampledFrom([]string{"u1", "u2"}).Draw(rt, "bind-q")}
		}
		// one case in eight: names made of letters drawn afresh from four scripts - whatever the
		// lexer learns about a character the first time it meets it, it learns while other
		// goroutines compile the same text
		freshNames := !nsMode && rapid.IntRange(0, 7).Draw(rt, "fresh-names") == 7
		if freshNames {
			letter := rapid.OneOf(rapid.Int32Range(0x00C0, 0x00D6), rapid.Int32Range(0x0100, 0x0131), rapid.Int32Range(0x0410, 0x044F), rapid.Int32Range(0x4E00, 0x9FA5))
			var names []string
			for i := 0; i < 3; i++ {
				n := string(rune(letter.Draw(rt, "letter")))
				if rapid.Bool().Draw(rt, "two-letters") {
					n += string(rune(letter.Draw(rt, "letter")))
				}
				names = append(names, n)
			}
			base.ElNames = names
			base.AtNames = []string{string(rune(letter.Draw(rt, "letter"))), "x"}
		}
		shapedOpts, _ := xgen.Shaped(rt, base)
		doc := xgen.Doc(rt, shapedOpts)
		ctx := xgen.Context(rt, doc, 4)
		g := xgen.NewG(rt, doc)
		g.ExtraFuncs = true
		if freshNames {
			g.ElNames, g.AtNames = base.ElNames, base.AtNames
		}
		if nsMode {
			g.ElNames = xgen.ElNames2
			g.Prefixes = []string{"p", "q"}
		}
		var e xast.Expr
		nodeSet := false
		alone := "" // for regex calls on literals: the value computed independently of the engine
		switch rapid.IntRange(0, 9).Draw(rt, "c05frag") {
		case 2:
			// several fresh patterns in one expression: every goroutine goes through several
			// miss/insert cycles of the shared pattern cache while the others are reading it
			c := &xast.Call{Name: "concat"}
			n := rapid.IntRange(2, 4).Draw(rt, "npat")
			if rapid.IntRange(0, 2).Draw(rt, "samepat") == 0 {
				// ONE pattern - one where leftmost-first and leftmost-longest differ - used by two
				// calls, the first of which refers to the whole match ($0): what the first call
				// does with the cached regexp must not show in the second
				pat := rapid.SampledFrom([]string{"a|ab", "ab|abab", "a+?", "b|ba", "(?:a|ab)b?"}).Draw(rt, "ambpat") + "|y{" + fmt.Sprint(rapid.IntRange(1, 900).Draw(rt, "mpatn")) + "}"
				r1 := rapid.SampledFrom([]string{"[$0]", "$0", "<$0>-"}).Draw(rt, "wholematch")
				c.Args = append(c.Args, &xast.Call{Name: "replace", Args: []xast.Expr{&xast.Str{S: "abab"}, &xast.Str{S: pat}, &xast.Str{S: r1}}},
					&xast.Call{Name: "replace", Args: []xast.Expr{&xast.Str{S: "abab"}, &xast.Str{S: pat}, &xast.Str{S: "-"}}})
				re := regexp.MustCompile(pat)
				alone = fmt.Sprintf("%T(%v)", "", re.ReplaceAllString("abab", r1)+re.ReplaceAllString("abab", "-"))
				n = 0
			}
			for i := 0; i < n; i++ {
				pat := rapid.SampledFrom(regexPatterns).Draw(rt, "mpat") + "|y{" + fmt.Sprint(rapid.IntRange(1, 900).Draw(rt, "mpatn")) + "}"
				c.Args = append(c.Args, &xast.Call{Name: "replace", Args: []xast.Expr{&xast.Str{S: "abab"}, &xast.Str{S: pat}, &xast.Str{S: "-"}}})
			}
			e = c
		case 3:
			// a pattern that is not a constant and varies from node to node within one evaluation
			subj := xast.Expr(&xast.Call{Name: "name"})
			if rapid.Bool().Draw(rt, "subjattr") {
				subj = &xast.Call{Name: "string", Args: []xast.Expr{&xast.Path{Steps: []interface{}{&xast.Step{Axis: "attribute", Test: xast.NodeTest{Kind: "name", Local: "y"}, Abbr: true}}}}}
			}
			pat := &xast.Call{Name: "string", Args: []xast.Expr{&xast.Path{Steps: []interface{}{&xast.Step{Axis: "attribute", Test: xast.NodeTest{Kind: "name", Local: "x"}, Abbr: true}}}}}
			m := &xast.Call{Name: "matches", Args: []xast.Expr{subj, pat}}
			pth := &xast.Path{Abs: true, Steps: []interface{}{xast.DSlash{}, &xast.Step{Axis: "child", Test: xast.NodeTest{Kind: "wild"}, Abbr: true, Preds: []xast.Expr{
				&xast.Path{Steps: []interface{}{&xast.Step{Axis: "attribute", Test: xast.NodeTest{Kind: "name", Local: "x"}, Abbr: true}}}, m}}}}
			if rapid.Bool().Draw(rt, "countit") {
				e = &xast.Call{Name: "count", Args: []xast.Expr{pth}}
			} else {
				e, nodeSet = pth, true
			}
		case 0:
			// regex functions through the shared pattern cache
			arg := xast.Expr(g.FlatPath(nil))
			if rapid.Bool().Draw(rt, "regexlit") {
				arg = &xast.Str{S: rapid.SampledFrom([]string{"a", "ab", "T", "12", ""}).Draw(rt, "rs")}
			}
			// a fresh pattern per case: the first goroutines miss the shared cache and insert while the others read
			pat := &xast.Str{S: rapid.SampledFrom(regexPatterns).Draw(rt, "pat") + "|z{" + fmt.Sprint(rapid.IntRange(1, 900).Draw(rt, "patn")) + "}"}
			re := regexp.MustCompile(pat.S)
			if rapid.Bool().Draw(rt, "replace") {
				rep := rapid.SampledFrom([]string{"", "x", "$1", "[$1]", "$1x", "$10", "$2$1"}).Draw(rt, "rep")
				e = &xast.Call{Name: "replace", Args: []xast.Expr{arg, pat, &xast.Str{S: rep}}}
				if lit, ok := arg.(*xast.Str); ok {
					// what the call returns when it is the only one the process ever makes: Go's regexp
					tmpl, _ := expandTemplate(rep, re.NumSubexp())
					alone = fmt.Sprintf("%T(%v)", "", re.ReplaceAllString(lit.S, tmpl)) // as observe() renders it
				}
			} else {
				e = &xast.Call{Name: "matches", Args: []xast.Expr{arg, pat}}
				if lit, ok := arg.(*xast.Str); ok {
					alone = fmt.Sprintf("%T(%v)", true, re.MatchString(lit.S))
				}
			}
		case 4:
			// an operator directly over a path whose last step stacks a boolean and a positional
			// predicate: the position tables of such a step are the state an evaluation tree
			// carries; whoever recycles trees between Evaluate calls shows it here
			pp := g.AxisPath(ctx, xgen.PathOpts{MaxSteps: 2, AbsShare: 5, DSlash: 3})
			if last, ok := pp.Steps[len(pp.Steps)-1].(*xast.Step); ok {
				last.Preds = append(last.Preds, g.BoolPred(nil, 0), g.PosPred())
			}
			if rapid.Bool().Draw(rt, "arith") {
				e = &xast.Bin{Op: "+", L: pp, R: &xast.Num{Lit: "1"}}
			} else {
				e = &xast.Bin{Op: rapid.SampledFrom([]string{"=", "!="}).Draw(rt, "cmpop"), L: pp, R: &xast.Str{S: rapid.SampledFrom([]string{"1", "t", ""}).Draw(rt, "cmplit")}}
			}
		case 1:
			e = &xast.Call{Name: "string-join", Args: []xast.Expr{g.AxisPath(ctx, xgen.PathOpts{MaxSteps: 2, AbsShare: 4, DSlash: 3}), &xast.Str{S: ","}}}
		default:
			e, nodeSet = anyExpr(g, rt, ctx)
		}
		ops := []string{"evaluate", "evaluate", "compile"}
		if nodeSet {
			ops = []string{"select", "evaluate", "select", "compile", "interleave"}
		}
		ng := rapid.IntRange(2, 8).Draw(rt, "goroutines")
		plans := make([]gPlan, ng)
		for i := range plans {
			plans[i] = gPlan{Op: rapid.SampledFrom(ops).Draw(rt, "gop"), Ctx: rapid.IntRange(0, 60).Draw(rt, "gctx")}
			if rapid.IntRange(0, 9).Draw(rt, "gsame") < 5 {
				plans[i].Ctx = ctx.ID
			}
			if nsMode {
				plans[i].Plain = rapid.Bool().Draw(rt, "plainnav")
			}
			if plans[i].Op == "compile" && rapid.Bool().Draw(rt, "probe") {
				// two letters out of 21 000: almost surely new to every Compile of this process, so
				// what the lexer and parser keep about a character is written while others compile
				cjk := rapid.Int32Range(0x4E00, 0x9FA5)
				plans[i].Probe = string([]rune{rune(cjk.Draw(rt, "probe1")), rune(cjk.Draw(rt, "probe2"))})
			}
		}
		reps := rapid.IntRange(3, 20).Draw(rt, "reps")
		l := &harness.Live{Property: "C05", Check: "C05/concurrent", Doc: doc, Ctx: ctx, AST: e, Expr: xast.Render(e), Flavour: flavourOf(rt),
			Params: map[string]interface{}{"plan": plans, "reps": reps}}
		if alone != "" {
			l.Params["alone"] = alone
		}
		if nsMode {
			l.Flavour, l.HasNS, l.NSMap = xdoc.NS, true, nsmap
		}
		if _, err, _ := harness.Compile(l.Expr, l.NSMap, l.HasNS); err != nil {
			uC05.Skip()
			return
		}
		journal.Record(l.Save())
		info, f := oracleC05(l)
		if f != nil {
			harness.Report(rt, uC05, l, f)
		}
		uC05.Case(harness.Mix(doc.Hash(), harness.Hash64(l.Expr, fmt.Sprint(plans), fmt.Sprint(reps))), info.nontrivial, info.labels, func() interface{} {
			return map[string]interface{}{"expr": l.Expr, "doc": doc.String(), "plan": plans, "reps": reps}
		})
	})
	journal.Close()
}
