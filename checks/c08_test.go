package checks

import (
	"fmt"
	"math"
	"testing"

	"pgregory.net/rapid"

	"verif/internal/harness"
	"verif/internal/xast"
	"verif/internal/xdoc"
	"verif/internal/xgen"
	"verif/internal/xref"
)

// C08 — arithmetic and numeric functions follow XPath 1.0 / IEEE 754.

const ruleC08 = "rapid: document with numeric (and a few non-numeric) values x context x arithmetic tree of depth <= 4 over number literals (0, 7, 007, 1., .5, 12.50, 17-digit literals), unary minus (incl. --x), + - * div, mod on non-negative integer operands with a non-zero literal divisor, floor, ceiling, number(literal | flat path | expression), count(flat), sum(flat path whose nodes are all numeric), string-length(flat); and string(e) of the same trees when the reference value is finite and |v| < 10^6. enum (exhaustive grid): string(k div 10^e), its negative, the same value as a literal and as number(' literal\\n') for k = 1..999, e = 0..9. Oracle: Evaluate = reference evaluator, float64 compared exactly (NaN = NaN), strings equal; one case in three also evaluates the one compiled expression node by node through the document. Non-trivial: tree depth >= 2 with a document-derived operand or a NaN/infinite value; distinct by (document, context, expression)."

var (
	uC08     = harness.NewUnit("C08", "rapid-arithmetic", ruleC08)
	uC08Grid = harness.NewUnit("C08", "enum-number-format-grid", ruleC08)
)

func init() {
	harness.RegisterOracle("C08/arith", func(l *harness.Live) *harness.Failure {
		_, f := oracleC08(l)
		return f
	})
}

// oracleC08: the reference value at the context node, and - for one case in three - the same
// compiled expression evaluated node by node through the document (a value computed at one
// node is the value at that node only).
func oracleC08(l *harness.Live) (harness.Value, *harness.Failure) {
	want, f := scalarOracle(l)
	if f != nil || l.Doc == nil || len(l.Doc.Nodes) < 3 || !hasPath(l.AST) || xast.HasCall(l.AST, "sum", "string-length") {
		// (sum() is claimed over nodes that are all numeric and string-length() is drawn over
		// ASCII values only; the generator sees to both at the drawn context node, so an
		// expression with either is not taken to other nodes)
		return want, f
	}
	return want, sweepContexts(l)
}

func depthOf(e xast.Expr) int {
	switch x := e.(type) {
	case *xast.Bin:
		a, b := depthOf(x.L), depthOf(x.R)
		if b > a {
			a = b
		}
		return a + 1
	case *xast.Neg:
		return depthOf(x.X) + 1
	case *xast.Call:
		d := 0
		for _, a := range x.Args {
			if k := depthOf(a); k > d {
				d = k
			}
		}
		return d + 1
	case *xast.Group:
		return depthOf(x.X)
	}
	return 0
}

func hasPath(e xast.Expr) bool {
	found := false
	xast.Walk(e, func(x xast.Expr) {
		if _, ok := x.(*xast.Path); ok {
			found = true
		}
	})
	return found
}

func TestC08Rapid(t *testing.T) {
	runRapid(t, uC08, func(rt *rapid.T) {
		doc := xgen.Doc(rt, xgen.WithNumberish(rt, xgen.NumDoc(), 3))
		ctx := xgen.Context(rt, doc, 5)
		g := xgen.NewG(rt, doc)
		var e xast.Expr = g.Arith(ctx, rapid.IntRange(0, 3).Draw(rt, "depth"))
		rv, err := xref.Eval(g.Env, e, ctx)
		if err != nil {
			uC08.Skip()
			return
		}
		val := rv.(float64)
		labels := []string{}
		if rapid.IntRange(0, 3).Draw(rt, "stringify") == 0 && xgen.FiniteSmall(val) {
			e = &xast.Call{Name: "string", Args: []xast.Expr{e}}
			labels = append(labels, "string(number)")
			if val != 0 && math.Abs(val) < 1e-4 {
				labels = append(labels, "string:|v|<1e-4")
			}
			if val == 0 && math.Signbit(val) {
				labels = append(labels, "string:-0")
			}
		}
		l := &harness.Live{Property: "C08", Check: "C08/arith", Doc: doc, Ctx: ctx, AST: e, Expr: xast.Render(e), Flavour: flavourOf(rt)}
		want, f := oracleC08(l)
		if f != nil {
			if inconclusive(uC08, f) {
				return
			}
			harness.Report(rt, uC08, l, f)
		}
		switch {
		case math.IsNaN(val):
			labels = append(labels, "value:NaN")
		case math.IsInf(val, 0):
			labels = append(labels, "value:Inf")
		case val == 0 && math.Signbit(val):
			labels = append(labels, "value:-0")
		case val != math.Trunc(val):
			labels = append(labels, "value:fraction")
		default:
			labels = append(labels, "value:integer")
		}
		for _, fn := range []string{"sum", "count", "number", "floor", "ceiling", "string-length"} {
			if xast.HasCall(e, fn) {
				labels = append(labels, "fn:"+fn)
			}
		}
		nontrivial := depthOf(e) >= 2 && (hasPath(e) || math.IsNaN(val) || math.IsInf(val, 0))
		uC08.Case(harness.Mix(doc.Hash(), uint64(ctx.ID), harness.Hash64(l.Expr)), nontrivial, labels, func() interface{} {
			return l.Sample("value", want.String())
		})
	})
}

// TestC08FormatGrid sweeps string(k div 10^e) and its negative for k = 1..999,
// e = 0..9 and the literal spellings of the same values (exhaustive for this
// grid): plain decimal notation for every finite number below one million.
func TestC08FormatGrid(t *testing.T) {
	doc := xdoc.MustParse("<a/>")
	shard, shards := harness.Shard()
	var total int64
	idx := 0
	pow := []string{"1", "10", "100", "1000", "10000", "100000", "1000000", "10000000", "100000000", "1000000000"}
	run := func(e xast.Expr, label string) {
		l := &harness.Live{Property: "C08", Check: "C08/arith", Doc: doc, Ctx: doc.Root, AST: e, Expr: xast.Render(e)}
		want, f := scalarOracle(l)
		if f != nil {
			harness.Report(t, uC08Grid, l, f)
		}
		total++
		uC08Grid.Case(harness.Hash64(l.Expr), true, []string{label}, func() interface{} { return l.Sample("value", want.String()) })
	}
	for k := 1; k <= 999; k++ {
		for e := 0; e <= 9; e++ {
			idx++
			if idx%shards != shard {
				continue
			}
			var q xast.Expr = &xast.Bin{Op: "div", L: &xast.Num{Lit: fmt.Sprint(k)}, R: &xast.Num{Lit: pow[e]}}
			run(&xast.Call{Name: "string", Args: []xast.Expr{q}}, fmt.Sprintf("div:e=%d", e))
			run(&xast.Call{Name: "string", Args: []xast.Expr{&xast.Neg{X: q}}}, fmt.Sprintf("neg-div:e=%d", e))
			if k%7 == 0 {
				// the same value written as a literal with leading zeros / fraction
				lit := fmt.Sprintf("%d", k)
				if e > 0 {
					s := fmt.Sprintf("%0*d", e+1, k)
					lit = s[:len(s)-e] + "." + s[len(s)-e:]
				}
				run(&xast.Call{Name: "string", Args: []xast.Expr{&xast.Num{Lit: lit}}}, "literal")
				run(&xast.Call{Name: "string", Args: []xast.Expr{&xast.Call{Name: "number", Args: []xast.Expr{&xast.Str{S: " " + lit + "\n"}}}}}, "number(string)")
			}
		}
	}
	uC08Grid.SetExhaustive(total)
	uC08Grid.Done(total)
}
