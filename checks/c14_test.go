package checks

import (
	"fmt"
	"sort"
	"testing"

	"github.com/antchfx/xpath"
	"pgregory.net/rapid"

	"verif/internal/harness"
	"verif/internal/xast"
	"verif/internal/xdoc"
	"verif/internal/xgen"
	"verif/internal/xref"
)

// C14 — name tests, namespaces and name functions identify nodes as documented.

const ruleC14 = "rapid: documents whose elements/attributes lie in 0-3 namespaces under varying prefixes (same URI under two prefixes, two URIs under one prefix in different subtrees, default namespace, unprefixed attributes) x both navigator flavours x paths of 1-3 steps over all axes with prefixed and unprefixed name tests (prefixes p, q from the document and r foreign to it) x namespace configuration: none (Compile), a map binding every prefix of the expression to a drawn URI (incl. re-binding a document prefix to another URI, and binding a prefix to the empty URI: no namespace), a map missing one prefix, the empty map; and name()/local-name()/namespace-uri() with no argument or a flat node-set argument (possibly empty). Oracle = the statement transcribed: no map -> prefix and local name equal; map + navigator exposing a namespace URI -> (URI bound to the prefix, local name) equal whatever the document's prefix; unbound prefix -> compile error; functions report qualified name / local name / namespace URI of the context respectively first node, '' for the empty set. Nothing is asserted where the statement is silent (unprefixed name tests under a map, prefix:*, navigators without namespace URI under a map, namespace-uri() on such navigators). Non-trivial: the document holds a node the last name test matches and a node with the same local name it must not match (paths); an unbound-prefix rejection; a name function applied to a node with a prefix or namespace. Distinct by (document, context, expression, namespace map, flavour)."

var uC14 = harness.NewUnit("C14", "rapid-namespaces", ruleC14)

func init() {
	harness.RegisterOracle("C14/names", func(l *harness.Live) *harness.Failure {
		_, f := oracleC14(l)
		return f
	})
}

type c14Info struct {
	want       harness.Value
	nontrivial bool
	labels     []string
}

func prefixesUsed(e xast.Expr) []string {
	m := map[string]bool{}
	xast.Walk(e, func(x xast.Expr) {
		if s, ok := x.(*xast.Step); ok && s.Test.Kind == "name" && s.Test.Prefix != "" {
			m[s.Test.Prefix] = true
		}
	})
	var out []string
	for k := range m {
		out = append(out, k)
	}
	sort.Strings(out)
	return out
}

func oracleC14(l *harness.Live) (c14Info, *harness.Failure) {
	var info c14Info
	env := &xref.Env{Doc: l.Doc}
	if l.HasNS && l.NSMap != nil {
		// unbound prefix => compile error
		for _, p := range prefixesUsed(l.AST) {
			if _, ok := l.NSMap[p]; !ok {
				e, err, pan := harness.Compile(l.Expr, l.NSMap, true)
				if pan != nil {
					return info, harness.Failf("compile error", pan.String(), "CompileWithNS panicked on an unbound prefix")
				}
				if err == nil || e != nil {
					return info, harness.Failf("compile error for unbound prefix "+p, "expression accepted", "an unbound prefix must be a compile error")
				}
				info.nontrivial = true
				info.labels = []string{"unbound-prefix-rejected"}
				info.want = harness.Value{Kind: "other", Note: "compile error"}
				return info, nil
			}
		}
		m := l.NSMap
		env.Match = func(t xast.NodeTest, n *xdoc.Node) bool {
			if t.Prefix == "" {
				return n.Local == t.Local && n.Prefix == "" // not asserted; generator never draws it under a map
			}
			return n.Local == t.Local && n.NS == m[t.Prefix]
		}
		info.labels = append(info.labels, "config:map")
	} else {
		info.labels = append(info.labels, "config:no-map")
	}
	rv, err := xref.Eval(env, l.AST, l.Ctx)
	if err != nil {
		return info, refFailure(err)
	}
	info.want = harness.FromRef(rv)
	if ns, ok := rv.(xref.NodeSet); ok {
		ids, f := engineSelect(l)
		if f != nil {
			return info, f
		}
		if got := harness.SetOf(ids); !harness.EqualInts(got, ns.IDs()) {
			return info, harness.Failf(describe(l.Doc, ns.IDs()), describe(l.Doc, got), "name tests matched a different node set than documented")
		}
		// non-triviality from the last name test
		if p, ok := l.AST.(*xast.Path); ok && len(p.Steps) > 0 {
			if st, ok := p.Steps[len(p.Steps)-1].(*xast.Step); ok && st.Test.Kind == "name" {
				match, sameLocalNot := 0, 0
				principal := xpath.ElementNode
				if st.Axis == "attribute" {
					principal = xpath.AttributeNode
				}
				for _, n := range l.Doc.Nodes {
					if n.Kind != principal || n.Local != st.Test.Local {
						continue
					}
					if env.TestNode(st.Axis, st.Test, n) {
						match++
					} else {
						sameLocalNot++
					}
				}
				info.nontrivial = match > 0 && sameLocalNot > 0
				if st.Test.Prefix != "" {
					info.labels = append(info.labels, "last-test:prefixed")
				}
				if l.HasNS && match > 0 {
					// matched although the document uses another prefix
					for _, n := range l.Doc.Nodes {
						if n.Kind == principal && n.Local == st.Test.Local && env.TestNode(st.Axis, st.Test, n) && n.Prefix != st.Test.Prefix {
							info.labels = append(info.labels, "matched-under-other-prefix")
							break
						}
					}
				}
			}
		}
		info.labels = append(info.labels, sizeLabel(len(ns)))
		return info, nil
	}
	ce, f := compileLive(l)
	if f != nil {
		return info, f
	}
	for round := 1; round <= 2; round++ { // the same compiled expression twice: the answer must not wear off
		got, f := evalWith(ce, l)
		if f != nil {
			return info, f
		}
		if !got.Equal(info.want) {
			return info, harness.Failf(info.want.String(), got.String(), "name function result differs from the documented value (evaluation %d of the compiled expression)", round)
		}
	}
	if reuseSampled(l) {
		// the same compiled expression node by node through the document: name(), name(@x),
		// name(b[1]) are empty at some nodes and not at others
		nodes := l.Doc.Nodes
		if len(nodes) > 10 {
			nodes = nodes[:10]
		}
		for _, n := range append(append([]*xdoc.Node{}, nodes...), nodes[0]) {
			rv, err := xref.Eval(env, l.AST, n)
			if err != nil {
				continue
			}
			x := *l
			x.Ctx = n
			got, f := evalWith(ce, &x)
			if f != nil {
				if f == cappedFailure {
					break
				}
				f.Note = "one compiled expression evaluated node by node, at " + n.Desc() + ": " + f.Note
				return info, f
			}
			if want := harness.FromRef(rv); !got.Equal(want) {
				return info, harness.Failf(want.String(), got.String(), "one compiled expression evaluated node by node: at %s the name function differs from the documented value", n.Desc())
			}
		}
	}
	if c, ok := l.AST.(*xast.Call); ok {
		info.labels = append(info.labels, "fn:"+c.Name, fmt.Sprintf("fn-args:%d", len(c.Args)))
		info.nontrivial = info.want.S != ""
	}
	return info, nil
}

func c14Doc() xgen.DocOpts {
	o := xgen.DefaultDoc()
	o.ElNames = []string{"a", "b", "a.b-c"} // name characters beyond letters: '.' and '-'
	o.MaxFan = 4
	o.NS = &xgen.NSOpts{Prefixes: []string{"", "", "p", "q"}, URIs: []string{"", "u1", "u2", "u3"}}
	return o
}

func TestC14Rapid(t *testing.T) {
	uris := []string{"u1", "u2", "u3"}
	// what a prefix may be bound to: also the empty URI - (no namespace, local name), i.e. the
	// unprefixed nodes outside every default namespace, whatever the prefix means in the document
	bindable := []string{"u1", "u2", "u3", "u1", "u2", ""}
	runRapid(t, uC14, func(rt *rapid.T) {
		shapedOpts, _ := xgen.Shaped(rt, c14Doc())
		doc := xgen.Doc(rt, shapedOpts)
		ctx := xgen.Context(rt, doc, 4)
		g := xgen.NewG(rt, doc)
		g.ElNames = []string{"a", "b", "a.b-c"}
		config := rapid.SampledFrom([]string{"none", "none", "map", "map", "map", "missing", "empty", "nilmap", "default-entry"}).Draw(rt, "config")
		flav := xdoc.NS
		useMap := config == "map" || config == "missing" || config == "empty" || config == "default-entry"
		if !useMap && rapid.Bool().Draw(rt, "plain") {
			flav = xdoc.Plain
		}
		nsmap := map[string]string{}
		if useMap {
			// under a map only prefixed name tests are asserted; pre-bind every candidate prefix so that guidance follows the map
			g.Prefixes = []string{"p", "q", "r"}
			for _, p := range g.Prefixes {
				nsmap[p] = rapid.SampledFrom(bindable).Draw(rt, "bind-"+p)
			}
			m := nsmap
			g.Env.Match = func(t xast.NodeTest, n *xdoc.Node) bool { return n.Local == t.Local && n.NS == m[t.Prefix] }
			if config == "default-entry" {
				// a map with an entry for the empty prefix: XPath 1.0 has no default namespace for
				// name tests, an unprefixed test keeps matching unprefixed nodes only
				g.Prefixes = []string{"", "p", "q"}
				g.Env.Match = func(t xast.NodeTest, n *xdoc.Node) bool {
					if t.Prefix == "" {
						return n.Local == t.Local && n.Prefix == ""
					}
					return n.Local == t.Local && n.NS == m[t.Prefix]
				}
			}
		} else {
			g.Prefixes = []string{"", "p", "q", "r"}
		}
		var e xast.Expr
		if rapid.IntRange(0, 9).Draw(rt, "fnform") < 3 {
			fn := rapid.SampledFrom([]string{"name", "local-name", "namespace-uri"}).Draw(rt, "fn")
			if fn == "namespace-uri" && flav == xdoc.Plain {
				fn = "name" // navigators without a namespace URI: nothing is documented for namespace-uri()
			}
			c := &xast.Call{Name: fn}
			if rapid.Bool().Draw(rt, "witharg") {
				arg := g.FlatPath(xref.NodeSet{ctx})
				if rapid.IntRange(0, 3).Draw(rt, "argpreds") == 0 {
					// predicates on the argument's last step, within the fragments C02/C03 claim: a position
					// only as the FIRST predicate of a child step reached from one context node, then a boolean one
					desc := false
					for _, sx := range arg.Steps {
						if _, ok := sx.(xast.DSlash); ok {
							desc = true
						}
						if sy, ok := sx.(*xast.Step); ok && sy.Axis == "descendant" {
							desc = true
						}
					}
					if st, ok := arg.Steps[len(arg.Steps)-1].(*xast.Step); ok && !desc {
						if st.Axis == "child" && rapid.Bool().Draw(rt, "argpos") {
							st.Preds = append(st.Preds, g.PosN())
						}
						st.Preds = append(st.Preds, g.BoolPred(nil, 0))
					}
				}
				c.Args = []xast.Expr{arg}
			}
			e = c
			if rapid.IntRange(0, 3).Draw(rt, "inpred") == 0 {
				// the function inside a predicate, judged for many candidates in one evaluation
				e = &xast.Path{Abs: true, Steps: []interface{}{xast.DSlash{}, &xast.Step{Axis: "child", Test: xast.NodeTest{Kind: "wild"}, Abbr: true,
					Preds: []xast.Expr{&xast.Bin{Op: rapid.SampledFrom([]string{"=", "!="}).Draw(rt, "fnop"), L: c, R: &xast.Str{S: rapid.SampledFrom([]string{"a", "b", "p:a", "u1", "u2", "", "x"}).Draw(rt, "fnlit")}}}}}}
			}
		} else {
			if rapid.Bool().Draw(rt, "withpreds") {
				// predicates put name tests next to operator names, brackets and commas (the scanner's look-ahead)
				e = g.AxisPath(ctx, xgen.PathOpts{MaxSteps: 3, PredDepth: 2, PredShare: 5, AbsShare: 4, DSlash: 2})
			} else {
				e = g.AxisPath(ctx, xgen.PathOpts{MaxSteps: 3, AbsShare: 4, DSlash: 2})
			}
		}
		l := &harness.Live{Property: "C14", Check: "C14/names", Doc: doc, Ctx: ctx, AST: e, Expr: renderDrawn(rt, e), Flavour: flav}
		switch config {
		case "map":
			used := map[string]string{}
			for _, p := range prefixesUsed(e) {
				used[p] = nsmap[p]
			}
			l.HasNS, l.NSMap = true, used
		case "default-entry":
			used := map[string]string{"": rapid.SampledFrom(uris).Draw(rt, "bind-default")}
			for _, p := range prefixesUsed(e) {
				used[p] = nsmap[p]
			}
			l.HasNS, l.NSMap = true, used
		case "missing":
			used := map[string]string{}
			ps := prefixesUsed(e)
			if len(ps) == 0 {
				return
			}
			drop := ps[rapid.IntRange(0, len(ps)-1).Draw(rt, "drop")]
			for _, p := range ps {
				if p != drop {
					used[p] = nsmap[p]
				}
			}
			used["zz"] = "u1" // the map is not empty, it just lacks the prefix
			l.HasNS, l.NSMap = true, used
		case "empty":
			if len(prefixesUsed(e)) == 0 {
				return
			}
			l.HasNS, l.NSMap = true, map[string]string{}
		case "nilmap":
			l.HasNS, l.NSMap = true, nil // CompileWithNS(expr, nil) behaves like Compile
		}
		info, f := oracleC14(l)
		if f != nil {
			if inconclusive(uC14, f) {
				return
			}
			harness.Report(rt, uC14, l, f)
		}
		info.labels = append(info.labels, "flavour:"+flav.String(), "cfg:"+config)
		uC14.Case(harness.Mix(doc.Hash(), uint64(ctx.ID), harness.Hash64(l.Expr, fmt.Sprint(l.NSMap), flav.String(), config)), info.nontrivial, info.labels, func() interface{} {
			return l.Sample("expected", info.want.String())
		})
	})
}
