package checks

import (
	"fmt"
	"runtime"
	"strings"
	"testing"
	"time"

	"verif/internal/harness"
	"verif/internal/xdoc"
)

// C15, exhaustive unit "pumped predicates": one step followed by segment^k for EVERY
// segment of one or two predicates from a pool of predicate forms (positional, last(),
// boolean, function-valued), k = 40 (thorough: 24, 40, 80), evaluated by Select and
// Evaluate on a small document. The navigator's operation budget cannot see work that
// never touches the document (copying query trees, for one); here termination is decided
// by the number of heap allocations, sampled while the evaluation runs: an evaluation of a
// few hundred bytes of expression on a 12-node document that passes c15AllocCap
// allocations is reported as not terminating and abandoned (the process ends with the
// report). Cost that doubles with every repeated predicate is far beyond the cap at k = 40
// and far below it when the cost is polynomial.

const c15AllocCap = 30_000_000

var uC15Pump = harness.NewUnit("C15", "enum-pumped-predicates", ruleC15)

var c15PumpPreds = []string{"[1]", "[last()]", "[position()=1]", "[position()=last()]", "[position()<last()]", "[last()-1]", "[last()>0]",
	"[b]", "[not(b)]", "[count(b)=0]", "[.='t']", "[@x]", "[b[1]]", "[true()]", "[not(position()=2)]", "[string-length()>=0]"}

func init() {
	harness.RegisterOracle("C15/pumped", func(l *harness.Live) *harness.Failure {
		_, f := oracleC15Pumped(l)
		return f
	})
}

// runBounded runs fn in a goroutine and samples the allocation counter; it reports
// whether fn finished before cap allocations were made (if not, fn is abandoned).
func runBounded(fn func(), cap uint64) (allocs uint64, finished bool) {
	var m0, m runtime.MemStats
	runtime.ReadMemStats(&m0)
	done := make(chan struct{})
	go func() {
		defer close(done)
		fn()
	}()
	tick := time.NewTicker(20 * time.Millisecond)
	defer tick.Stop()
	for {
		select {
		case <-done:
			runtime.ReadMemStats(&m)
			return m.Mallocs - m0.Mallocs, true
		case <-tick.C:
			runtime.ReadMemStats(&m)
			if d := m.Mallocs - m0.Mallocs; d > cap {
				return d, false
			}
		}
	}
}

func oracleC15Pumped(l *harness.Live) (uint64, *harness.Failure) {
	var info c15Info
	var f *harness.Failure
	allocs, finished := runBounded(func() { info, f = oracleC15(l) }, c15AllocCap)
	if !finished {
		return allocs, harness.Failf(fmt.Sprintf("Select and Evaluate of a %d-byte expression on a %d-node document end within %d allocations", len(l.Expr), len(l.Doc.Nodes), uint64(c15AllocCap)),
			fmt.Sprintf("%d allocations and still running", allocs),
			"the cost of evaluating a step multiplies with every further predicate: it does not terminate in practice (and the navigator's operation budget never notices, the work does not touch the document)")
	}
	_ = info
	return allocs, f
}

func TestC15Pumped(t *testing.T) {
	journal := harness.OpenJournal()
	doc := xdoc.MustParse("<r><a x='1'><b>{t}</b></a><a>{t}</a><a x='2'><b/><b/></a><a/></r>")
	ctx := doc.Nodes[1]
	reps := []int{40}
	if harness.Tier() == "thorough" {
		reps = []int{24, 40, 80}
	}
	shard, shards := harness.Shard()
	var segs []string
	for _, a := range c15PumpPreds {
		segs = append(segs, a)
		for _, b := range c15PumpPreds {
			if a != b {
				segs = append(segs, a+b)
			}
		}
	}
	var total int64
	var maxAllocs uint64
	for i, seg := range segs {
		if i%shards != shard {
			continue
		}
		for _, step := range []string{"a", "*", "descendant::a"} {
			for _, k := range reps {
				expr := step + strings.Repeat(seg, k)
				l := &harness.Live{Property: "C15", Check: "C15/pumped", Doc: doc, Ctx: ctx, Expr: expr}
				journal.Record(l.Save())
				allocs, f := oracleC15Pumped(l)
				if f != nil {
					harness.Report(t, uC15Pump, l, f)
				}
				if allocs > maxAllocs {
					maxAllocs = allocs
				}
				total++
				uC15Pump.Case(harness.Hash64(expr), true, []string{fmt.Sprintf("repetitions:%d", k), "step:" + step}, func() interface{} {
					return map[string]interface{}{"segment": seg, "repetitions": k, "expr": clip(expr), "allocations": allocs}
				})
			}
		}
	}
	journal.Close()
	t.Logf("largest allocation count of one case: %d (cap %d)", maxAllocs, uint64(c15AllocCap))
	uC15Pump.SetExhaustive(total)
	uC15Pump.Done(total)
}
