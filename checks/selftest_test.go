package checks

import (
	"fmt"
	"math"
	"reflect"
	"testing"

	"github.com/antchfx/xpath"
	"pgregory.net/rapid"

	"verif/internal/harness"
	"verif/internal/xast"
	"verif/internal/xdoc"
	"verif/internal/xgen"
	"verif/internal/xref"
)

// Self tests of the framework: the reference evaluator against golden cases
// (transcribed from the XPath 1.0 recommendation and the repository's tests)
// and against algebraic laws over generated documents; document and AST
// serialisation round-trips. Run by `vcheck selftest`.

func step(axis, kind, local string, preds ...xast.Expr) *xast.Step {
	return &xast.Step{Axis: axis, Test: xast.NodeTest{Kind: kind, Local: local}, Preds: preds}
}
func rel(steps ...interface{}) *xast.Path { return &xast.Path{Steps: steps} }
func abs(steps ...interface{}) *xast.Path { return &xast.Path{Abs: true, Steps: steps} }
func num(s string) *xast.Num              { return &xast.Num{Lit: s} }
func lit(s string) *xast.Str              { return &xast.Str{S: s} }
func call(n string, a ...xast.Expr) *xast.Call {
	return &xast.Call{Name: n, Args: a}
}
func bin(op string, l, r xast.Expr) *xast.Bin { return &xast.Bin{Op: op, L: l, R: r} }

var ds = xast.DSlash{}

func TestSelfGolden(t *testing.T) {
	// ids: 0 root, 1 <r>, 2 @k, 3 <a>(first), 4 @x=1, 5 text 1, 6 <b>, 7 <a>(nested), 8 text 2, 9 comment, 10 <a>(third), 11 @x=3, 12 <c>, 13 text t
	d := xdoc.MustParse("<r k='v'><a x='1'>{1}</a><b><a>{2}</a><!--c--></b><a x='3'/><c>{t}</c></r>")
	if len(d.Nodes) != 14 {
		t.Fatalf("unexpected node count %d", len(d.Nodes))
	}
	type tc struct {
		e    xast.Expr
		ctx  int
		want interface{}
	}
	cases := []tc{
		{abs(), 5, []int{0}},
		{abs(step("child", "name", "r"), step("child", "name", "a")), 0, []int{3, 10}},
		{abs(ds, step("child", "name", "a")), 7, []int{3, 7, 10}},
		{rel(step("descendant", "name", "a")), 1, []int{3, 7, 10}},
		{rel(step("descendant-or-self", "node", "")), 6, []int{6, 7, 8, 9}},
		{rel(step("ancestor", "wild", "")), 8, []int{1, 6, 7}},
		{rel(step("ancestor", "node", "")), 8, []int{0, 1, 6, 7}},
		{rel(step("ancestor-or-self", "name", "a")), 7, []int{7}},
		{rel(step("following", "node", "")), 3, []int{6, 7, 8, 9, 10, 12, 13}},
		{rel(step("following", "node", "")), 4, []int{5, 6, 7, 8, 9, 10, 12, 13}}, // from an attribute: the parent's children follow
		{rel(step("preceding", "node", "")), 10, []int{3, 5, 6, 7, 8, 9}},
		{rel(step("preceding", "node", "")), 11, []int{3, 5, 6, 7, 8, 9}},
		{rel(step("preceding", "wild", "")), 8, []int{3}},
		{rel(step("following-sibling", "wild", "")), 3, []int{6, 10, 12}},
		{rel(step("preceding-sibling", "node", "")), 9, []int{7}},
		{rel(step("following-sibling", "node", "")), 4, []int{}}, // attributes have no siblings
		{rel(step("attribute", "wild", "")), 3, []int{4}},
		{rel(step("attribute", "wild", "")), 4, []int{}}, // attribute axis of a non-element is empty
		{rel(step("attribute", "node", "")), 1, []int{2}},
		{rel(step("self", "wild", "")), 4, []int{}}, // principal node type of self is element
		{rel(step("self", "node", "")), 4, []int{4}},
		{rel(step("parent", "node", "")), 4, []int{3}},
		{rel(step("parent", "wild", "")), 1, []int{}},
		{rel(step("child", "text", "")), 3, []int{5}},
		{rel(step("child", "comment", "")), 6, []int{9}},
		{rel(step("child", "node", "")), 4, []int{}},
		{abs(ds, step("child", "name", "a", num("1"))), 0, []int{3, 7}}, // //a[1]: first a child of each parent
		{&xast.Filter{Primary: &xast.Group{X: abs(ds, step("child", "name", "a"))}, Preds: []xast.Expr{num("2")}}, 0, []int{7}},
		{abs(ds, step("child", "name", "a", call("last"))), 0, []int{7, 10}},
		{abs(ds, step("child", "name", "a", bin("=", rel(step("attribute", "name", "x")), num("3")))), 0, []int{10}},
		{abs(ds, step("child", "wild", "", rel(step("ancestor", "name", "b")))), 0, []int{7}},
		{rel(step("ancestor", "node", "", num("1"))), 8, []int{7}}, // reverse axis: position 1 is the nearest
		{rel(step("preceding-sibling", "wild", "", num("1"))), 12, []int{10}},
		{bin("|", abs(ds, step("child", "name", "c")), abs(ds, step("child", "name", "b"))), 0, []int{6, 12}},
		{call("count", abs(ds, step("child", "name", "a"))), 0, 3.0},
		{call("sum", abs(ds, step("child", "name", "a"), step("attribute", "name", "x"))), 0, 4.0},
		{call("string", abs(ds, step("child", "name", "a"))), 0, "1"},
		{call("string", rel(step("self", "node", ""))), 1, "12t"},
		{call("number", lit(" 12 ")), 0, 12.0},
		{call("number", lit("1e3")), 0, math.NaN()},
		{call("number", lit("-.5")), 0, -0.5},
		{call("number", lit("+5")), 0, math.NaN()},
		{call("string", bin("div", num("1"), num("0"))), 0, "Infinity"},
		{call("string", bin("div", num("1"), num("3"))), 0, "0.3333333333333333"},
		{call("string", num("0.000001")), 0, "0.000001"},
		{call("string", &xast.Neg{X: num("0")}), 0, "0"},
		{call("boolean", call("number", lit(""))), 0, false},
		{bin("=", abs(ds, step("child", "name", "a")), lit("2")), 0, true},
		{bin("!=", abs(ds, step("child", "name", "a")), lit("2")), 0, true},
		{bin("=", abs(ds, step("child", "name", "zz")), lit("")), 0, false},
		{bin(">", abs(ds, step("child", "name", "c")), num("1")), 0, false}, // 't' is NaN
		{bin("=", call("true"), num("7")), 0, true},
		{bin("mod", num("5"), num("2")), 0, 1.0},
		{bin("mod", &xast.Neg{X: num("5")}, num("2")), 0, -1.0},
		{call("round", num("2.5")), 0, 3.0},
		{call("round", &xast.Neg{X: num("2.5")}), 0, -2.0},
		{call("substring", lit("12345"), num("1.5"), num("2.6")), 0, "234"},
		{call("substring", lit("12345"), num("0"), num("3")), 0, "12"},
		{call("substring", lit("12345"), bin("div", num("0"), num("0")), num("3")), 0, ""},
		{call("substring", lit("12345"), num("1"), bin("div", num("0"), num("0"))), 0, ""},
		{call("substring", lit("12345"), &xast.Neg{X: num("42")}, bin("div", num("1"), num("0"))), 0, "12345"},
		{call("substring", lit("12345"), bin("div", &xast.Neg{X: num("1")}, num("0")), bin("div", num("1"), num("0"))), 0, ""},
		{call("substring", lit("12345"), num("3"), num("10")), 0, "345"},
		{call("substring-before", lit("1999/04/01"), lit("/")), 0, "1999"},
		{call("substring-after", lit("1999/04/01"), lit("/")), 0, "04/01"},
		{call("substring-after", lit("abc"), lit("")), 0, "abc"},
		{call("translate", lit("--aaa--"), lit("abc-"), lit("ABC")), 0, "AAA"},
		{call("translate", lit("bar"), lit("abc"), lit("ABC")), 0, "BAr"},
		{call("normalize-space", lit("  a \t b\n")), 0, "a b"},
		{call("concat", lit("a"), num("1"), call("true")), 0, "a1true"},
		{call("contains", abs(ds, step("child", "name", "zz")), lit("")), 0, true},
		{call("string-length", lit("abc")), 0, 3.0},
		{call("local-name", abs(ds, step("child", "name", "a"), step("attribute", "wild", ""))), 0, "x"},
		{call("name"), 9, ""},
		{call("string-join", abs(ds, step("child", "name", "a")), lit(",")), 0, "1,2,"},
	}
	for i, c := range cases {
		got, err := xref.EvalDoc(d, c.e, d.Nodes[c.ctx])
		if err != nil {
			t.Errorf("case %d %s: %v", i, xast.Render(c.e), err)
			continue
		}
		switch w := c.want.(type) {
		case []int:
			ns, ok := got.(xref.NodeSet)
			if !ok || !harness.EqualInts(ns.IDs(), w) {
				t.Errorf("case %d %s from #%d: got %v want %v", i, xast.Render(c.e), c.ctx, got, w)
			}
		case float64:
			g, ok := got.(float64)
			if !ok || !(g == w || (math.IsNaN(g) && math.IsNaN(w))) {
				t.Errorf("case %d %s: got %v want %v", i, xast.Render(c.e), got, w)
			}
		default:
			if !reflect.DeepEqual(got, c.want) {
				t.Errorf("case %d %s: got %#v want %#v", i, xast.Render(c.e), got, c.want)
			}
		}
	}
}

// Axis laws over generated documents: duality and the five-way partition.
func TestSelfAxisLaws(t *testing.T) {
	rapid.Check(t, func(rt *rapid.T) {
		d := xgen.Doc(rt, xgen.DefaultDoc())
		in := func(axis string, from, n *xdoc.Node) bool {
			for _, m := range xref.AxisNodes(axis, from) {
				if m == n {
					return true
				}
			}
			return false
		}
		for _, x := range d.Nodes {
			// axis order: forward axes ascend, reverse axes descend, no duplicates
			for _, ax := range xast.Axes {
				ns := xref.AxisNodes(ax, x)
				for i := 1; i < len(ns); i++ {
					if xast.ReverseAxis(ax) && ns[i].ID >= ns[i-1].ID || !xast.ReverseAxis(ax) && ns[i].ID <= ns[i-1].ID {
						rt.Fatalf("axis %s from %s not in axis order in %s", ax, x.Desc(), d)
					}
				}
			}
			// a second definition of the four "document order" axes by ID arithmetic and
			// ancestry only (no tree walking): the transcription in xref must agree with it
			isAnc := func(a, b *xdoc.Node) bool { // a is a proper ancestor of b
				for p := b.Parent; p != nil; p = p.Parent {
					if p == a {
						return true
					}
				}
				return false
			}
			for _, ax := range []string{"descendant", "ancestor", "following", "preceding"} {
				var want []int
				for _, y := range d.Nodes {
					if y == x {
						continue
					}
					ok := false
					switch ax {
					case "descendant":
						ok = y.Kind != xpath.AttributeNode && isAnc(x, y)
					case "ancestor":
						ok = isAnc(y, x)
					case "following":
						ok = y.Kind != xpath.AttributeNode && y.ID > x.ID && !isAnc(x, y)
					case "preceding":
						ok = y.Kind != xpath.AttributeNode && y.ID < x.ID && !isAnc(y, x)
					}
					if ok {
						want = append(want, y.ID)
					}
				}
				got := harness.SetOf(xref.NodeSet(xref.AxisNodes(ax, x)).IDs())
				if !harness.EqualInts(got, want) && !(len(got) == 0 && len(want) == 0) {
					rt.Fatalf("axis %s from %s: transcription %v, order arithmetic %v in %s", ax, x.Desc(), got, want, d)
				}
			}
			if x.Kind == xpath.AttributeNode {
				continue
			}
			// partition: ancestor, descendant, following, preceding, self partition the non-attribute nodes
			for _, y := range d.Nodes {
				if y.Kind == xpath.AttributeNode {
					continue
				}
				c := 0
				for _, ax := range []string{"ancestor", "descendant", "following", "preceding", "self"} {
					if in(ax, x, y) {
						c++
					}
				}
				if c != 1 {
					rt.Fatalf("partition violated for %s / %s in %s (count %d)", x.Desc(), y.Desc(), d, c)
				}
				// duality
				if in("ancestor", x, y) != in("descendant", y, x) || in("following", x, y) != in("preceding", y, x) ||
					in("following-sibling", x, y) != in("preceding-sibling", y, x) || in("parent", x, y) != in("child", y, x) {
					rt.Fatalf("duality violated for %s / %s in %s", x.Desc(), y.Desc(), d)
				}
				// document order
				if in("following", x, y) && y.ID <= x.ID || in("preceding", x, y) && y.ID >= x.ID {
					rt.Fatalf("order violated for %s / %s in %s", x.Desc(), y.Desc(), d)
				}
			}
		}
	})
}

// Predicate laws: De Morgan, double negation, [true()] neutrality.
func TestSelfPredicateLaws(t *testing.T) {
	rapid.Check(t, func(rt *rapid.T) {
		d := xgen.Doc(rt, xgen.DefaultDoc())
		g := xgen.NewG(rt, d)
		ctx := xgen.Context(rt, d, 3)
		p, q := g.BoolPred(xref.NodeSet{ctx}, 1), g.BoolPred(xref.NodeSet{ctx}, 1)
		ev := func(e xast.Expr) bool {
			v, err := xref.EvalDoc(d, call("boolean", e), ctx)
			if err != nil {
				rt.Fatalf("ref: %v", err)
			}
			return v.(bool)
		}
		if ev(call("not", bin("and", p, q))) != ev(bin("or", call("not", p), call("not", q))) {
			rt.Fatalf("De Morgan fails for %s , %s", xast.Render(p), xast.Render(q))
		}
		if ev(call("not", call("not", p))) != ev(p) {
			rt.Fatalf("double negation fails for %s", xast.Render(p))
		}
	})
}

// Serialisation round-trips: documents and ASTs survive Save/Load.
func TestSelfRoundTrips(t *testing.T) {
	rapid.Check(t, func(rt *rapid.T) {
		o := xgen.DefaultDoc()
		o.NS = &xgen.NSOpts{Prefixes: []string{"", "p", "q"}, URIs: []string{"", "u1", "u2"}}
		d := xgen.Doc(rt, o)
		d2, err := xdoc.Parse(d.String())
		if err != nil {
			rt.Fatalf("parse %s: %v", d, err)
		}
		if d2.String() != d.String() || d2.Hash() != d.Hash() || len(d2.Nodes) != len(d.Nodes) {
			rt.Fatalf("document round-trip changed %s into %s", d, d2)
		}
		g := xgen.NewG(rt, d)
		ctx := xgen.Context(rt, d, 3)
		e := g.AxisPath(ctx, xgen.PathOpts{MaxSteps: 3, PredDepth: 2, PredShare: 5, Pos: true, AbsShare: 4, DSlash: 2})
		e2, err := xast.Unmarshal(xast.Marshal(e))
		if err != nil {
			rt.Fatalf("unmarshal: %v", err)
		}
		if xast.Render(e2) != xast.Render(e) || xast.RenderFull(e2) != xast.RenderFull(e) {
			rt.Fatalf("AST round-trip changed %s into %s", xast.Render(e), xast.Render(e2))
		}
	})
}

// The navigators obey the contract the engine relies on.
func TestSelfNavigator(t *testing.T) {
	d := xdoc.MustParse("<r k='v' j='w'><a/>{t}<b/></r>")
	for _, f := range []xdoc.Flavour{xdoc.NS, xdoc.Plain} {
		n := d.Nav(f, d.Nodes[1], nil)
		if !n.MoveToNextAttribute() || n.LocalName() != "k" || !n.MoveToNextAttribute() || n.LocalName() != "j" || n.MoveToNextAttribute() {
			t.Fatalf("attribute iteration broken")
		}
		if n.MoveToNext() || n.MoveToPrevious() || n.MoveToChild() || n.MoveToFirst() {
			t.Fatalf("attributes must have no siblings/children")
		}
		if !n.MoveToParent() || n.LocalName() != "r" {
			t.Fatalf("attribute parent broken")
		}
		c := n.Copy()
		if !c.MoveToChild() || c.LocalName() != "a" || c.MoveToFirst() || !c.MoveToNext() || c.NodeType() != xpath.TextNode || !c.MoveToFirst() || c.LocalName() != "a" {
			t.Fatalf("child/sibling navigation broken")
		}
		if n.LocalName() != "r" {
			t.Fatalf("Copy is not independent")
		}
		other := xdoc.MustParse("<r/>")
		if n.MoveTo(other.Nav(f, other.Root, nil)) {
			t.Fatalf("MoveTo across documents must fail")
		}
		if !n.MoveTo(c) || n.LocalName() != "a" {
			t.Fatalf("MoveTo broken")
		}
		n.MoveToRoot()
		if n.NodeType() != xpath.RootNode || n.MoveToParent() {
			t.Fatalf("root broken")
		}
	}
	b := &xdoc.Budget{Limit: 5}
	n := d.Nav(xdoc.NS, d.Root, b)
	func() {
		defer func() {
			if _, ok := recover().(xdoc.BudgetExceeded); !ok {
				t.Fatalf("budget not enforced")
			}
		}()
		for i := 0; i < 10; i++ {
			n.MoveToChild()
		}
	}()
	_ = fmt.Sprint
}
