package checks

import (
	"fmt"
	"testing"

	"github.com/antchfx/xpath"
	"pgregory.net/rapid"

	"verif/internal/harness"
	"verif/internal/xast"
	"verif/internal/xdoc"
	"verif/internal/xgen"
	"verif/internal/xref"
)

// C01 — predicate-free location paths select exactly the XPath 1.0 node-set.

const ruleC01 = "rapid: document (depth<=4, fan<=3, 3 element names, attributes, text, comments) x context node (40% root, else uniform over all nodes incl. attributes/text/comments) x predicate-free path of 1-4 steps over 12 axes x {name,*,node(),text(),comment()} x {/,//} x {abs,rel} x abbreviations, 70% of steps reference-guided; enum: all axis tuples x tests {a,*,node()} x separators x {rel,/,//} on fixed+drawn rich documents. Oracle: set(Select) = set(Evaluate) = reference XPath 1.0 evaluator. Non-trivial: reference result non-empty and (>= 2 steps or a non-child axis); distinct by (document, context, expression)."

var (
	uC01Rapid = harness.NewUnit("C01", "rapid-paths", ruleC01)
	uC01Enum  = harness.NewUnit("C01", "enum-axis-tuples", ruleC01)
)

func init() {
	harness.RegisterOracle("C01/select-set", func(l *harness.Live) *harness.Failure {
		_, f := oracleC01(l)
		return f
	})
}

type c01Info struct {
	want       []int
	raw        []int
	nontrivial bool
	labels     []string
}

func oracleC01(l *harness.Live) (c01Info, *harness.Failure) {
	var info c01Info
	want, err := refNodes(l)
	if err != nil {
		return info, refFailure(err)
	}
	info.want = want.IDs()
	e, f := compileLive(l)
	if f != nil {
		return info, f
	}
	ids, f := selectWith(e, l)
	if f != nil {
		return info, f
	}
	info.raw = ids
	if got := harness.SetOf(ids); !harness.EqualInts(got, info.want) {
		return info, harness.Failf(describe(l.Doc, info.want), describe(l.Doc, got), "set(Select) differs from the XPath 1.0 denotation")
	}
	if reuseSampled(l) {
		// Select, Select, then Evaluate on the one compiled expression (Evaluate re-arms
		// state that a second Select finds exhausted, so the order matters)
		ids2, f := selectWith(e, l)
		if f != nil && f != cappedFailure {
			f.Note = "second Select on the same compiled expression: " + f.Note
			return info, f
		}
		if f == nil && !harness.EqualInts(harness.SetOf(ids2), info.want) {
			return info, harness.Failf(describe(l.Doc, info.want), describe(l.Doc, harness.SetOf(ids2)), "set(Select) of the SECOND Select on the same compiled expression differs from the XPath 1.0 denotation")
		}
	}
	v, f := evalWith(e, l)
	if f != nil {
		return info, f
	}
	if v.Kind != "nodes" {
		return info, harness.Failf("node iterator", v.String(), "Evaluate of a location path is not a node iterator")
	}
	if got := harness.SetOf(v.IDs); !harness.EqualInts(got, info.want) {
		return info, harness.Failf(describe(l.Doc, info.want), describe(l.Doc, got), "set(Evaluate) differs from the XPath 1.0 denotation")
	}
	p, _ := l.AST.(*xast.Path)
	nsteps, nonChild := 0, false
	if p != nil {
		for _, s := range p.Steps {
			switch st := s.(type) {
			case *xast.Step:
				nsteps++
				if st.Axis != "child" {
					nonChild = true
				}
			case xast.DSlash:
				nsteps++
				nonChild = true
			}
		}
	}
	info.nontrivial = len(info.want) > 0 && (nsteps >= 2 || nonChild)
	info.labels = append(shapeLabels(l.AST), sizeLabel(len(info.want)))
	if l.Ctx.Kind == xpath.AttributeNode {
		info.labels = append(info.labels, "ctx:attribute")
	} else if l.Ctx.Kind != xpath.RootNode {
		info.labels = append(info.labels, "ctx:non-root")
	}
	if harness.HasDup(ids) {
		info.labels = append(info.labels, "raw:duplicates")
	}
	return info, nil
}

func flavourOf(rt *rapid.T) xdoc.Flavour {
	if rapid.IntRange(0, 3).Draw(rt, "flavour") == 0 {
		return xdoc.Plain
	}
	return xdoc.NS
}

func TestC01Rapid(t *testing.T) {
	runRapid(t, uC01Rapid, func(rt *rapid.T) {
		o := xgen.DefaultDoc()
		prefixed := rapid.IntRange(0, 4).Draw(rt, "prefixed") == 0
		if prefixed {
			// prefixed names (matched by prefix + local name, no namespace map) and repeated attribute locals
			o.NS = &xgen.NSOpts{Prefixes: []string{"", "", "p", "q"}, URIs: []string{"", "u"}}
			o.ElNames = xgen.ElNames2
		}
		shape := xgen.Shape(rt, &o)
		unicodeNames := !prefixed && shape != "doc:many-attributes" && rapid.IntRange(0, 9).Draw(rt, "unicode-names") == 9
		if unicodeNames {
			o.ElNames = []string{"é", "中文", "имя"} // multi-byte names: the scanner counts bytes, the grammar counts characters
			o.AtNames = []string{"ключ", "x"}
		}
		hostileNames := !prefixed && !unicodeNames && shape != "doc:many-attributes" && rapid.IntRange(0, 9).Draw(rt, "hostile-names") == 9
		if hostileNames {
			// every kind of name character: '-' and '.' followed by digits and letters, '_', digits
			o.ElNames = []string{"a-1", "b.c", "_x", "a1", "a-b", "v1.2"}
			o.AtNames = []string{"id-2", "x.y"}
			unicodeNames = true
		}
		keywordNames := !prefixed && !unicodeNames && shape != "doc:many-attributes" && rapid.IntRange(0, 9).Draw(rt, "keyword-names") == 9
		if keywordNames {
			// elements and attributes named like operators, axes, node types and functions:
			// after '/', '::', '@', '[' or at the start a name is a name test, whatever it spells
			o.ElNames = []string{"div", "and", "text", "child", "last"}
			o.AtNames = []string{"or", "node"}
			unicodeNames = true // (the generator takes its names from the options below)
		}
		doc := xgen.Doc(rt, o)
		ctx := xgen.Context(rt, doc, 4)
		g := xgen.NewG(rt, doc)
		g.AtNames = o.AtNames
		if unicodeNames {
			g.ElNames = o.ElNames
		}
		if prefixed {
			g.ElNames = xgen.ElNames2
			g.Prefixes = []string{"", "p", "q"}
		}
		maxSteps := 4
		if rapid.IntRange(0, 9).Draw(rt, "longpath") == 0 {
			maxSteps = 8
		}
		p := g.AxisPath(ctx, xgen.PathOpts{MaxSteps: maxSteps, AbsShare: 4, DSlash: 2})
		l := &harness.Live{Property: "C01", Check: "C01/select-set", Doc: doc, Ctx: ctx, AST: p, Expr: renderDrawn(rt, p), Flavour: flavourOf(rt)}
		info, f := oracleC01(l)
		if f != nil {
			if inconclusive(uC01Rapid, f) {
				return
			}
			harness.Report(rt, uC01Rapid, l, f)
		}
		for _, s := range p.Steps {
			if st, ok := s.(*xast.Step); ok {
				info.labels = append(info.labels, "axis:"+st.Axis)
			}
		}
		if prefixed {
			info.labels = append(info.labels, "doc:prefixed-names")
		}
		info.labels = append(info.labels, shape)
		uC01Rapid.Case(harness.Mix(doc.Hash(), uint64(ctx.ID), harness.Hash64(l.Expr)), info.nontrivial, info.labels, func() interface{} {
			return l.Sample("result", describe(doc, info.want))
		})
	})
}

// richDocs returns the documents the enumerators run on: a few fixed ones that
// contain nested same-name elements, attributes, text and comments, plus ones
// drawn from the generator (deterministically from the seed).
func richDocs(n int, seed int) []*xdoc.Doc {
	docs := []*xdoc.Doc{
		xdoc.MustParse("<a x='1' y='2'><b x='t'><a><b/>{1}</a>{t}<!--c--><c y=''/></b><b><c>{2}</c><a x='2'/></b><!--d-->{x y}<c><c><c/></c></c></a>"),
		xdoc.MustParse("<c><a><a><a x='1'/></a><b/></a><b y='1'>{10}<b>{1}</b></b><a/>{t}</c>"),
		xdoc.MustParse("<b><!--1--><a x='1' y='1'>{1}{2}</a><a><b><c/></b><b x=''/></a><c>{t}<a/><!--t--></c></b>"),
	}
	o := xgen.DefaultDoc()
	gen := rapid.Custom(func(t *rapid.T) *xdoc.Doc { return xgen.Doc(t, o) }).Filter(func(d *xdoc.Doc) bool {
		if len(d.Nodes) < 12 || len(d.Nodes) > 40 {
			return false
		}
		kinds := map[xpath.NodeType]bool{}
		nested := false
		for _, nd := range d.Nodes {
			kinds[nd.Kind] = true
			if nd.Kind == xpath.ElementNode {
				for p := nd.Parent; p != nil; p = p.Parent {
					if p.Kind == xpath.ElementNode && p.Local == nd.Local {
						nested = true
					}
				}
			}
		}
		return nested && kinds[xpath.AttributeNode] && kinds[xpath.TextNode] && kinds[xpath.CommentNode]
	})
	for i := 0; len(docs) < n; i++ {
		docs = append(docs, gen.Example(seed*1000+i))
	}
	return docs[:n]
}

// spreadContexts picks k context nodes of different kinds from a document.
func spreadContexts(d *xdoc.Doc, k int) []*xdoc.Node {
	out := []*xdoc.Node{d.Root}
	seen := map[xpath.NodeType]int{}
	for _, n := range d.Nodes[1:] {
		if len(out) >= k {
			break
		}
		if seen[n.Kind] < 2 && (n.Kind != xpath.ElementNode || n.ID > len(d.Nodes)/3) {
			seen[n.Kind]++
			out = append(out, n)
		}
	}
	return out
}

func TestC01Enum(t *testing.T) {
	k := 2
	ndocs := 8
	if harness.Tier() == "thorough" {
		k = 3
		ndocs = 10
	}
	shard, shards := harness.Shard()
	docs := richDocs(ndocs, harness.EnvInt("VERIF_SEED", 1))
	tests := []xast.NodeTest{{Kind: "name", Local: "a"}, {Kind: "wild"}, {Kind: "node"}}
	axes := xast.Axes
	// enumerate tuples in size order (1 step, then 2, ...), so the first failure is small
	var total int64
	idx := 0
	for n := 1; n <= k; n++ {
		choices := len(axes) * len(tests)
		count := 1
		for i := 0; i < n; i++ {
			count *= choices
		}
		seps := 1 << (n - 1)
		for combo := 0; combo < count; combo++ {
			for sepBits := 0; sepBits < seps; sepBits++ {
				for start := 0; start < 3; start++ {
					idx++
					if idx%shards != shard {
						continue
					}
					p := &xast.Path{Abs: start > 0}
					if start == 2 {
						p.Steps = append(p.Steps, xast.DSlash{})
					}
					c := combo
					for i := 0; i < n; i++ {
						ch := c % choices
						c /= choices
						if i > 0 && sepBits&(1<<(i-1)) != 0 {
							p.Steps = append(p.Steps, xast.DSlash{})
						}
						p.Steps = append(p.Steps, &xast.Step{Axis: axes[ch/len(tests)], Test: tests[ch%len(tests)], Abbr: (combo+sepBits)%2 == 0})
					}
					expr := xast.Render(p)
					for _, d := range docs {
						for _, ctx := range spreadContexts(d, 4) {
							if p.Abs && ctx != d.Root && ctx.ID%2 == 0 {
								continue // absolute paths: a subset of contexts is enough here (C13 covers the rest)
							}
							l := &harness.Live{Property: "C01", Check: "C01/select-set", Doc: d, Ctx: ctx, AST: p, Expr: expr}
							info, f := oracleC01(l)
							if f != nil {
								if inconclusive(uC01Enum, f) {
									total++
									continue
								}
								harness.Report(t, uC01Enum, l, f)
							}
							total++
							uC01Enum.Case(harness.Mix(d.Hash(), uint64(ctx.ID), harness.Hash64(expr)), info.nontrivial, info.labels, func() interface{} {
								return l.Sample("result", describe(d, info.want))
							})
						}
					}
				}
			}
		}
	}
	uC01Enum.SetExhaustive(total)
	uC01Enum.Done(total)
	_ = fmt.Sprint
	_ = xref.SortSet
}
