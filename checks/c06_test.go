package checks

import (
	"encoding/base64"
	"fmt"
	"regexp"
	"runtime/debug"
	"strings"
	"sync/atomic"
	"testing"
	"time"

	"github.com/antchfx/xpath"
	"pgregory.net/rapid"

	"verif/internal/harness"
	"verif/internal/xast"
	"verif/internal/xdoc"
	"verif/internal/xgen"
)

// C06 — Compile is total: no panic, crash or hang; exactly one of (expr, error).

const ruleC06 = "rapid: valid expression text from all fragments (incl. unconstrained ones) or token soup, then 0-3 mutations, byte-level (delete / duplicate a range, flip a byte, insert a token from a dictionary) or token-level (delete / duplicate / swap lexical words of XPath tokens, quotes, brackets, NUL, invalid UTF-8, multi-byte names) x namespace configuration (Compile; CompileWithNS with nil, empty, binding and non-binding maps, and maps whose keys and values are no names at all: 'x:', a quote, '#', NUL, '(' ...). mixed: alternations of two constructs (predicate/function, predicate/arithmetic, parenthesis/union, sequence/predicate/function ...) at depths 2..198, whose compile cost must stay polynomial, and replace() with every pair of 8 constant patterns x 14 constant replacement templates ('$', '$$', '$0', '$2', 'x$', '${' ...) in 3 positions; two-phase: N completed sibling constructs followed by a construct nested N+250 deep (N up to 10^5 quick / 1.5*10^6 thorough) for 7 prefix x 5 nesting constructs; deep: every recursive construct of the grammar ('(', 'a[', 'f(', 'a/(', 'a/(b,', '-', 'a/', 'a//', '[1]', '1+', 'a|', 'or', '=', alternations of two) nested to depth 10^2..10^5 (10^6 for the constructs of at most four bytes per level), and the ten chain constructs at 10^3 and 10^5 terms inside each of 8 frames that make the builder reject the expression around them (unknown function, too many arguments, in a predicate, as a sibling), under an 8 MB maximum stack (quick) or ..3*10^6 (3*10^7) under the default 1 GB stack (thorough), closed and unclosed, each journalled before it runs so that a dying process is attributed. pumped segments: prefix + segment^n + suffix (n = 40; thorough 24, 40, 64, 150) for every segment of <= 3 chunks from 37 lexical chunks and small balanced constructs ('/', '(b,c)', '[b|c]', ' or ', 'not(' ...) in 5 frames, decided by an allocation budget (a Compile that passes 6*10^7 allocations is abandoned and reported) so that a cost that multiplies per repeated sibling is seen without waiting for the clock; short byte strings: every string of <= 3 bytes over 26 hostile bytes (UTF-8 lead/continuation bytes, BOM bytes, NUL, 0xFF, quotes, brackets) x 2 namespace configurations. thorough also: native go fuzzing of the same oracle. Oracle: Compile/CompileWithNS return exactly one of (non-nil expr, non-nil error); no panic escapes; the process survives; MustCompile returns a usable non-nil expression; a returned expression answers String() without panicking and can be used once (Select and Evaluate on a four-element document under a small operation budget) without a Go runtime error; every call returns within a generous wall-clock margin (re-tried once in isolation). Non-trivial: the input was mutated, or is soup, or is a depth case; distinct by input bytes + namespace configuration."

var (
	uC06Rapid = harness.NewUnit("C06", "rapid-mutated-inputs", ruleC06)
	uC06Deep  = harness.NewUnit("C06", "enum-deep-nesting", ruleC06)
	uC06Mixed = harness.NewUnit("C06", "enum-mixed-nesting", ruleC06)
	uC06Two   = harness.NewUnit("C06", "enum-two-phase-nesting", ruleC06)
)

func init() {
	harness.RegisterOracle("C06/total", func(l *harness.Live) *harness.Failure {
		in := inputOf(l)
		_, f := checkCompileTotal(in, l.HasNS, l.NSMap)
		return f
	})
	harness.RegisterOracle("C06/two-phase", func(l *harness.Live) *harness.Failure {
		pn, _ := l.Params["prefix"].(string)
		nn, _ := l.Params["nest"].(string)
		depth, _ := l.Params["depth"].(float64)
		if d, ok := l.Params["depth"].(int); ok {
			depth = float64(d)
		}
		if mb, ok := l.Params["max_stack_mb"].(float64); ok && mb > 0 {
			debug.SetMaxStack(int(mb) << 20)
		}
		for _, pre := range twoPhasePrefixes {
			for _, nst := range twoPhaseNests {
				if pre.name == pn && nst.name == nn {
					_, f := checkCompileTotal(pre.build(int(depth), true)+nst.build(int(depth)+250, true), false, nil)
					return f
				}
			}
		}
		return harness.Failf("known constructs", pn+"+"+nn, "unknown two-phase construct")
	})
	harness.RegisterOracle("C06/mixed", func(l *harness.Live) *harness.Failure {
		name, _ := l.Params["construct"].(string)
		closed, _ := l.Params["closed"].(bool)
		depth, _ := l.Params["depth"].(float64)
		if d, ok := l.Params["depth"].(int); ok {
			depth = float64(d)
		}
		for _, c := range mixedConstructs {
			if c.name == name {
				_, f := checkCompileTotal(c.build(int(depth), closed), false, nil)
				return f
			}
		}
		return harness.Failf("known construct", name, "unknown mixed construct")
	})
	harness.RegisterOracle("C06/deep", func(l *harness.Live) *harness.Failure {
		name, _ := l.Params["construct"].(string)
		closed, _ := l.Params["closed"].(bool)
		depth := 0
		switch d := l.Params["depth"].(type) {
		case int:
			depth = d
		case float64:
			depth = int(d)
		}
		if mb, ok := l.Params["max_stack_mb"].(float64); ok && mb > 0 {
			debug.SetMaxStack(int(mb) << 20)
		}
		frame, _ := l.Params["frame"].(string)
		for _, c := range deepConstructs {
			if c.name == name {
				in := c.build(depth, closed)
				if frame != "" {
					found := false
					for _, fr := range errorFrames {
						if fr.name == frame {
							in, found = fr.open+in+fr.close, true
						}
					}
					if !found {
						return harness.Failf("known frame", frame, "unknown error frame")
					}
				}
				_, f := checkCompileTotal(in, false, nil)
				return f
			}
		}
		return harness.Failf("known construct", name, "unknown deep construct")
	})
}

func inputOf(l *harness.Live) string {
	if b64, ok := l.Params["input_b64"].(string); ok {
		if b, err := base64.StdEncoding.DecodeString(b64); err == nil {
			return string(b)
		}
	}
	return l.Expr
}

// hangSeen: a call of this process did not come back. The goroutine it ran in is still
// spinning; the report stands, and what follows (rapid's shrinking) gets a short margin so
// that it ends soon instead of piling up more of them.
var hangSeen atomic.Bool

// checkCompileTotal is the C06 oracle for one input.
func checkCompileTotal(s string, hasNS bool, ns map[string]string) (accepted bool, f *harness.Failure) {
	limit := 20 * time.Second
	if len(s) > 64<<10 {
		limit = 120 * time.Second
	}
	if hangSeen.Load() {
		limit = 2 * time.Second
	}
	try := func() (bool, time.Duration, *harness.Failure) {
		t0 := time.Now()
		type res struct {
			e   *xpath.Expr
			err error
			pan *harness.PanicInfo
		}
		ch := make(chan res, 1)
		// in a goroutine of its own so that a call that does not come back can be reported
		// (the goroutine is abandoned; the process ends with the report)
		go func() {
			e, err, pan := harness.Compile(s, ns, hasNS)
			ch <- res{e, err, pan}
		}()
		var e *xpath.Expr
		var err error
		var pan *harness.PanicInfo
		select {
		case r := <-ch:
			e, err, pan = r.e, r.err, r.pan
		case <-time.After(limit + limit/2):
			return false, time.Since(t0), nil
		}
		dt := time.Since(t0)
		if pan != nil {
			return false, dt, harness.Failf("an error or an expression", pan.String(), "a panic escaped from Compile")
		}
		if (e == nil) == (err == nil) {
			return false, dt, harness.Failf("exactly one of (expr, err)", fmt.Sprintf("expr=%v err=%v", e != nil, err), "Compile must return exactly one of an expression and an error")
		}
		if e != nil {
			_ = e.String() // usable: must not panic (what it returns is not part of C06)
			// usable: evaluating it on a small document may raise the package's deliberate
			// error, it may not die of a nil query or an index the builder left behind
			used := make(chan *harness.PanicInfo, 1)
			go func() { used <- useOnce(e) }()
			select {
			case pi := <-used:
				if pi != nil {
					return true, dt, harness.Failf("a usable expression", pi.String(), "Compile accepted the input, and the expression it returned aborts with a Go runtime error as soon as it is used")
				}
			case <-time.After(limit + limit/2):
				hangSeen.Store(true)
				return true, dt, harness.Failf("a usable expression", fmt.Sprintf("no answer after %v", limit+limit/2), "Compile accepted the input, and the expression it returned does not come back from its first use on a four-element document (the navigator's operation budget was not even reached: it spins without touching the document)")
			}
		}
		return e != nil, dt, nil
	}
	acc, dt, f := try()
	if f != nil {
		return acc, f
	}
	if dt > limit {
		// machine load must not raise an alarm: once more, alone
		_, dt2, _ := try()
		if dt2 > limit {
			hangSeen.Store(true)
			return acc, harness.Failf("Compile returns promptly", fmt.Sprintf("%v then %v for %d bytes", dt, dt2, len(s)), "Compile did not terminate within the margin")
		}
	}
	// MustCompile never panics and never returns nil; what it returns is usable
	var m *xpath.Expr
	var mp interface{}
	func() {
		defer func() { mp = recover() }()
		m = xpath.MustCompile(s)
		plain, perr := xpath.Compile(s)
		if m != nil && (plain == nil || perr != nil) {
			// for a rejected input MustCompile hands out a stand-in expression: it must be usable
			d := xdoc.MustParse("<a/>")
			it := m.Select(d.Nav(xdoc.NS, d.Root, &xdoc.Budget{Limit: 1000000}))
			for i := 0; i < 3 && it.MoveNext(); i++ {
			}
		}
	}()
	if mp != nil {
		return acc, harness.Failf("MustCompile does not panic", fmt.Sprint(mp), "MustCompile (or the expression it returned for a rejected input) panicked")
	}
	if m == nil {
		return acc, harness.Failf("non-nil expression", "nil", "MustCompile returned nil")
	}
	return acc, nil
}

var c06UseDoc = xdoc.MustParse("<a x='1'><b>{t}</b><a/><!--c--></a>")

// useOnce runs Select (a few steps) and Evaluate of a freshly compiled expression on a
// small document under a small operation budget; only a Go runtime error is reported.
func useOnce(e *xpath.Expr) (pi *harness.PanicInfo) {
	for _, mode := range []int{0, 1} {
		func() {
			defer func() {
				if r := recover(); r != nil {
					if c := harness.Classify(r); c.IsRuntime && !c.Budget {
						pi = c
					}
				}
			}()
			nav := c06UseDoc.Nav(xdoc.NS, c06UseDoc.Nodes[1], &xdoc.Budget{Limit: 200000})
			if mode == 0 {
				it := e.Select(nav)
				for i := 0; i < 50 && it.MoveNext(); i++ {
				}
				return
			}
			if it, ok := e.Evaluate(nav).(*xpath.NodeIterator); ok {
				for i := 0; i < 50 && it.MoveNext(); i++ {
				}
			}
		}()
		if pi != nil {
			return pi
		}
	}
	return nil
}

func clip(s string) string {
	if len(s) > 120 {
		return s[:60] + "..." + s[len(s)-40:]
	}
	return s
}

var mutDict = []string{"(", ")", "[", "]", "'", "\"", "/", "//", "::", ":", "@", "$", "*", ",", "|", "-", "=", "!=", "<", ">=", ".", "..", " ", "\t", "\x00", "\xff", "\xc3", "\xe4\xb8\xad", "é", "child::", "ancestor::", "namespace::", "foo::", "and", "or", "div", "mod", "not(", "count(", "string()", "last()", "text()", "node()", "processing-instruction(", "p:", ":a", "p:*", "1", "1.", ".5", "1e3", "$x", "#", "!", "{", "\\"}

var soupVocab = []string{"a", "b", "*", "@x", ".", "..", "/", "//", "(", ")", "[", "]", ",", "|", "+", "-", "=", "!=", "<", "<=", ">", ">=", "and", "or", "div", "mod", "1", "2.5", "'s'", "\"t\"", "$v", "child::", "ancestor::", "following-sibling::", "attribute::", "namespace::", "self::", "text()", "node()", "comment()", "count(", "not(", "string(", "string()", "number()", "boolean()", "position()", "last()", "name()", "concat(", "substring(", "contains(", "sum(", "round(", "reverse(", "translate(", "true()", "false()", "p:a", "p:*", "normalize-space()", "local-name(", "starts-with(", "string-join(", "matches(", "replace(", "lower-case(", "floor(", "ceiling(", "string-length(", "substring-before(", "ends-with("}

// Soup draws a token soup: 1..n tokens, brackets balanced with probability 3/4.
func Soup(rt *rapid.T, n int) string {
	k := rapid.IntRange(1, n).Draw(rt, "ntok")
	var toks []string
	var open []string
	balance := rapid.IntRange(0, 3).Draw(rt, "balance") > 0
	for i := 0; i < k; i++ {
		t := rapid.SampledFrom(soupVocab).Draw(rt, "tok")
		toks = append(toks, t)
		switch {
		case strings.HasSuffix(t, "("):
			open = append(open, ")")
		case t == "[":
			open = append(open, "]")
		case (t == ")" || t == "]") && len(open) > 0:
			open = open[:len(open)-1]
		}
	}
	if balance {
		for i := len(open) - 1; i >= 0; i-- {
			toks = append(toks, open[i])
		}
	}
	return strings.Join(toks, rapid.SampledFrom([]string{"", " "}).Draw(rt, "soupsep"))
}

// lexWords splits text into lexical words: runs of name characters, quoted
// literals, runs of blanks, and single other characters.
func lexWords(s string) []string {
	var out []string
	isName := func(c byte) bool {
		return c == '_' || c == '-' || c == '.' || (c >= '0' && c <= '9') || (c >= 'a' && c <= 'z') || (c >= 'A' && c <= 'Z') || c >= 0x80
	}
	for i := 0; i < len(s); {
		j := i + 1
		switch c := s[i]; {
		case isName(c):
			for j < len(s) && isName(s[j]) {
				j++
			}
		case c == '\'' || c == '"':
			for j < len(s) && s[j] != c {
				j++
			}
			if j < len(s) {
				j++
			}
		case c == ' ' || c == '\t' || c == '\n':
			for j < len(s) && (s[j] == ' ' || s[j] == '\t' || s[j] == '\n') {
				j++
			}
		case c == '/' || c == ':' || c == '<' || c == '>' || c == '!':
			if j < len(s) && (s[j] == c || s[j] == '=') {
				j++
			}
		}
		out = append(out, s[i:j])
		i = j
	}
	return out
}

func mutate(rt *rapid.T, s string) (string, int) {
	n := rapid.IntRange(0, 3).Draw(rt, "nmut")
	b := []byte(s)
	for i := 0; i < n; i++ {
		pos := 0
		if len(b) > 0 {
			pos = rapid.IntRange(0, len(b)).Draw(rt, "mutpos")
		}
		switch rapid.IntRange(0, 6).Draw(rt, "mutkind") {
		case 4, 5, 6: // token-level: delete / duplicate / swap lexical words
			words := lexWords(string(b))
			if len(words) < 2 {
				break
			}
			w := rapid.IntRange(0, len(words)-2).Draw(rt, "word")
			switch rapid.IntRange(0, 2).Draw(rt, "wordop") {
			case 0:
				words = append(words[:w], words[w+1:]...)
			case 1:
				words = append(words[:w+1], words[w:]...)
			default:
				words[w], words[w+1] = words[w+1], words[w]
			}
			b = []byte(strings.Join(words, ""))
		case 0: // delete a range
			if len(b) > 0 {
				end := pos + rapid.IntRange(1, 4).Draw(rt, "dellen")
				if end > len(b) {
					end = len(b)
				}
				b = append(append([]byte{}, b[:pos]...), b[end:]...)
			}
		case 1: // duplicate a range
			if len(b) > 0 {
				end := pos + rapid.IntRange(1, 6).Draw(rt, "duplen")
				if end > len(b) {
					end = len(b)
				}
				seg := append([]byte{}, b[pos:end]...)
				b = append(append(append([]byte{}, b[:end]...), seg...), b[end:]...)
			}
		case 2: // flip a byte
			if pos < len(b) {
				b[pos] ^= byte(1 << uint(rapid.IntRange(0, 7).Draw(rt, "bit")))
			}
		default: // insert a dictionary token
			tok := rapid.SampledFrom(mutDict).Draw(rt, "dict")
			b = append(append(append([]byte{}, b[:pos]...), tok...), b[pos:]...)
		}
	}
	return string(b), n
}

func TestC06Rapid(t *testing.T) {
	// A client is entitled to install a small pattern cache. Compile consults the cache for
	// every constant matches() pattern, so with two entries the generated inputs drive it
	// through miss, insert and reset all the time - whatever goes wrong there (a lock kept,
	// a failed load remembered) shows as a Compile that hangs or panics.
	savedCache := xpath.RegexpCache
	xpath.RegexpCache = xpath.NewLoadingCache(func(key interface{}) (interface{}, error) { return regexp.Compile(key.(string)) }, 2)
	defer func() { xpath.RegexpCache = savedCache }()
	journal := harness.OpenJournal()
	doc := xdoc.MustParse("<a x='1'><b/>{t}</a>")
	runRapid(t, uC06Rapid, func(rt *rapid.T) {
		g := xgen.NewG(rt, doc)
		g.Prefixes = []string{"", "", "p"}
		var base, kind string
		switch rapid.IntRange(0, 9).Draw(rt, "basekind") {
		case 0, 1, 2:
			base, kind = Soup(rt, 10), "base:soup"
		case 3, 4, 5:
			base, kind = xast.Render(g.WildExpr(3, xgen.WildOpts{Vars: true, AnyArity: true, NSAxis: true, Regex: true})), "base:wild"
		default:
			e, _ := anyExpr(g, rt, doc.Root)
			base, kind = xast.Render(e), "base:valid"
		}
		in, nmut := mutate(rt, base)
		cfg := rapid.SampledFrom([]string{"compile", "compile", "nil", "empty", "bound", "other", "hostile"}).Draw(rt, "nscfg")
		hasNS := cfg != "compile"
		var ns map[string]string
		switch cfg {
		case "empty":
			ns = map[string]string{}
		case "bound":
			ns = map[string]string{"p": "u1", "q": "u2"}
		case "other":
			ns = map[string]string{"zz": "u1"}
		case "hostile":
			// keys and values no namespace declaration could hold: whatever CompileWithNS does
			// with its map (look it up, validate it, scan it) must end in an expression or an error
			ns = map[string]string{}
			for i, n := 0, rapid.IntRange(1, 3).Draw(rt, "nkeys"); i < n; i++ {
				k := rapid.SampledFrom([]string{"x:", "'q", "\"", "#", "", ":", "a b", "1st", "&a", "\x00", "p", "q", "(", "[", "é", "a:b", "\ufeff", "$v", "*", "..", "@", "-"}).Draw(rt, "nskey")
				ns[k] = rapid.SampledFrom([]string{"u1", "", " ", "'", "\x00"}).Draw(rt, "nsval")
			}
		}
		l := &harness.Live{Property: "C06", Check: "C06/total", Expr: in, HasNS: hasNS, NSMap: ns,
			Params: map[string]interface{}{"input_b64": base64.StdEncoding.EncodeToString([]byte(in))}}
		journal.Record(l.Save())
		acc, f := checkCompileTotal(in, hasNS, ns)
		if f != nil {
			harness.Report(rt, uC06Rapid, l, f)
		}
		labels := []string{kind, fmt.Sprintf("mutations:%d", nmut), "ns:" + cfg}
		if acc {
			labels = append(labels, "accepted")
		} else {
			labels = append(labels, "rejected")
		}
		uC06Rapid.Case(harness.Hash64(in, cfg), nmut > 0 || kind == "base:soup", labels, func() interface{} {
			return map[string]interface{}{"input": fmt.Sprintf("%q", in), "ns": cfg, "accepted": acc}
		})
	})
	journal.Close()
}

type deepConstruct struct {
	name  string
	build func(n int, closed bool) string
}

func rep(s string, n int) string { return strings.Repeat(s, n) }

func nest(open, core, close string) func(int, bool) string {
	return func(n int, closed bool) string {
		if closed {
			return rep(open, n) + core + rep(close, n)
		}
		return rep(open, n) + core
	}
}

var deepConstructs = []deepConstruct{
	{"paren", nest("(", "a", ")")},
	{"predicate", nest("a[", "a", "]")},
	{"call", nest("not(", "a", ")")},
	{"step-sequence", func(n int, closed bool) string { return "a/" + nest("(", "b", ")")(n, closed) }},
	{"step-sequence-comma", func(n int, closed bool) string { return "a/" + nest("(b,", "c", ")")(n, closed) }},
	{"step-sequence-predicate", func(n int, closed bool) string { return "a/" + nest("(", "b[1]", ")")(n, closed) + "/c" }},
	{"paren-predicate", nest("(a[", "a", "])")},
	{"sequence-predicate", nest("a/(b[", "c", "])")},
	{"call-paren", nest("count((", "a", "))")},
	{"filter-path", nest("(a)[", "1", "]")},
	{"unary-minus", func(n int, _ bool) string { return rep("-", n) + "a" }},
	{"slash", func(n int, _ bool) string { return rep("a/", n) + "a" }},
	{"double-slash", func(n int, _ bool) string { return rep("a//", n) + "a" }},
	{"predicates-in-a-row", func(n int, _ bool) string { return "a" + rep("[1]", n) }},
	{"plus", func(n int, _ bool) string { return rep("1+", n) + "1" }},
	{"union", func(n int, _ bool) string { return rep("a|", n) + "a" }},
	{"or", func(n int, _ bool) string { return rep("a or ", n) + "a" }},
	{"equals", func(n int, _ bool) string { return rep("a=", n) + "a" }},
	{"abbrev-parent", func(n int, _ bool) string { return rep("../", n) + ".." }},
	{"concat-args", func(n int, _ bool) string { return "concat(" + rep("a,", n) + "a)" }},
}

// errorFrames put a long chain where the builder rejects the expression around it: whatever
// a rejection does with the operand it was handed (describe it in the message, release it,
// walk it for a hint) meets a tree as deep as the chain is long, before the builder's own
// depth accounting has seen it.
var errorFrames = []struct{ name, open, close string }{
	{"unknown-function", "nosuch(", ")"},
	{"unknown-function-second-argument", "nosuch(1,", ")"},
	{"unknown-prefixed-function", "p:nosuch(", ")"},
	{"too-many-arguments", "true(", ")"},
	{"too-many-arguments-second", "string(1,", ")"},
	{"unknown-function-in-predicate", "a[nosuch(", ")]"},
	{"unknown-function-sibling", "nosuch() or ", ""},
	{"chain-then-unknown-function", "", " or nosuch()"},
}

var chainConstructs = map[string]bool{"unary-minus": true, "slash": true, "double-slash": true, "predicates-in-a-row": true, "plus": true, "union": true, "or": true, "equals": true, "abbrev-parent": true, "concat-args": true}

// mixedConstructs nest two different constructs alternately; their cost must
// stay polynomial, so they are tried at moderate depths below the parser's limit.
var mixedConstructs = []deepConstruct{
	{"predicate-count", nest("a[count(", "a[1]", ")]")},
	{"predicate-arith", nest("a[1+", "a[1]", "]")},
	{"predicate-not-path", nest("a[not(b/", "a", ")]")},
	{"count-predicate-eq", nest("count(a[", "b", "=1])")},
	{"paren-union", nest("(a|", "b", ")")},
	{"predicate-position", nest("a[position()=", "1", "]")},
	{"predicate-string-fn", nest("a[contains(string(", ".", "),'x')]")},
	{"sequence-predicate-fn", nest("a/(b[count(", "c", ")>0])")},
	{"neg-paren", nest("-(", "1", ")")},
	{"filter-filter", nest("(a[", "1", "])[1]")},
}

func TestC06Mixed(t *testing.T) {
	journal := harness.OpenJournal()
	shard, shards := harness.Shard()
	var total int64
	idx := 0
	for _, depth := range []int{2, 4, 8, 12, 16, 20, 24, 28, 32, 40, 50, 64, 80, 100, 150, 198} {
		for _, c := range mixedConstructs {
			for _, closed := range []bool{true, false} {
				idx++
				if idx%shards != shard {
					continue
				}
				in := c.build(depth, closed)
				l := &harness.Live{Property: "C06", Check: "C06/mixed", Expr: clip(in),
					Params: map[string]interface{}{"construct": c.name, "depth": depth, "closed": closed}}
				journal.Record(l.Save())
				acc, f := checkCompileTotal(in, false, nil)
				if f != nil {
					harness.Report(t, uC06Mixed, l, f)
				}
				total++
				res := "rejected"
				if acc {
					res = "accepted"
				}
				uC06Mixed.Case(harness.Hash64(c.name, fmt.Sprint(depth, closed)), true, []string{"construct:" + c.name, fmt.Sprintf("depth:%d", depth), res}, func() interface{} {
					return map[string]interface{}{"construct": c.name, "depth": depth, "closed": closed, "input": clip(in), "result": res}
				})
			}
		}
	}
	// regex calls with constant arguments: whatever Compile prepares ahead of time for a constant
	// pattern or a constant replacement template, it prepares inside Compile
	for _, pat := range []string{"a", "(a)", "(a)(b)", "[", "a|b", "", "(?:a)", "(a"} {
		for _, rep := range []string{"$", "$$", "$0", "$1", "$2", "$x", "x$", "${1}", "${", "\\", "$1$", "", "US$ 1", "$10"} {
			for _, form := range []string{"replace(., '%s', '%s')", "replace('a$b', '%s', '%s')", "//a[replace(@x, '%s', '%s') = '$']"} {
				idx++
				if idx%shards != shard {
					continue
				}
				in := fmt.Sprintf(form, pat, rep)
				l := &harness.Live{Property: "C06", Check: "C06/total", Expr: in, Params: map[string]interface{}{"input_b64": base64.StdEncoding.EncodeToString([]byte(in))}}
				journal.Record(l.Save())
				acc, f := checkCompileTotal(in, false, nil)
				if f != nil {
					harness.Report(t, uC06Mixed, l, f)
				}
				total++
				res := "rejected"
				if acc {
					res = "accepted"
				}
				uC06Mixed.Case(harness.Hash64("regex-constants", in), true, []string{"construct:regex-constants", res}, func() interface{} {
					return map[string]interface{}{"construct": "regex-constants", "input": in, "result": res}
				})
			}
		}
	}
	journal.Close()
	uC06Mixed.SetExhaustive(total)
	uC06Mixed.Done(total)
}

// twoPhase inputs: N completed sibling constructs first, then a construct nested N+250
// deep. Depth accounting that leaks on every completed construct (a counter
// decremented twice, never decremented, reset) is invisible to pure nesting and to
// pure repetition; it needs both phases in one input.
var twoPhasePrefixes = []deepConstruct{
	{"steps-in-parens", func(n int, _ bool) string { return "a" + rep("/(b)", n) + "/" }},
	{"step-sequences", func(n int, _ bool) string { return "a" + rep("/(b,c)", n) + "/" }},
	{"predicates", func(n int, _ bool) string { return "a" + rep("[b]", n) + "/" }},
	{"paren-predicates", func(n int, _ bool) string { return "a" + rep("[(b)]", n) + "/" }},
	{"union-of-groups", func(n int, _ bool) string { return rep("(a)|", n) }},
	{"or-of-calls", func(n int, _ bool) string { return rep("not(a) or ", n) }},
	{"sum-of-groups", func(n int, _ bool) string { return rep("(1)+", n) }},
}

var twoPhaseNests = []deepConstruct{
	{"paren", nest("(", "a", ")")},
	{"predicate", nest("a[", "a", "]")},
	{"call", nest("not(", "a", ")")},
	{"step-sequence", func(n int, closed bool) string { return "a/" + nest("(", "b", ")")(n, closed) }},
	{"paren-predicate", nest("(a[", "a", "])")},
}

func TestC06TwoPhase(t *testing.T) {
	journal := harness.OpenJournal()
	depths := []int{50, 1000, 100000}
	stackMB := 8
	if harness.Tier() == "thorough" {
		depths = []int{50, 1000, 100000, 1500000}
		stackMB = 0
	}
	if stackMB > 0 {
		debug.SetMaxStack(stackMB << 20)
	}
	shard, shards := harness.Shard()
	var total int64
	idx := 0
	for _, depth := range depths {
		for _, pre := range twoPhasePrefixes {
			for _, nst := range twoPhaseNests {
				idx++
				if idx%shards != shard {
					continue
				}
				in := pre.build(depth, true) + nst.build(depth+250, true)
				l := &harness.Live{Property: "C06", Check: "C06/two-phase", Expr: clip(in),
					Params: map[string]interface{}{"prefix": pre.name, "nest": nst.name, "depth": depth, "max_stack_mb": float64(stackMB)}}
				journal.Record(l.Save())
				acc, f := checkCompileTotal(in, false, nil)
				if f != nil {
					harness.Report(t, uC06Two, l, f)
				}
				total++
				res := "rejected"
				if acc {
					res = "accepted"
				}
				uC06Two.Case(harness.Hash64(pre.name, nst.name, fmt.Sprint(depth)), true, []string{"prefix:" + pre.name, "nest:" + nst.name, fmt.Sprintf("depth:%d", depth), res}, func() interface{} {
					return map[string]interface{}{"prefix": pre.name, "nest": nst.name, "depth": depth, "input": clip(in), "result": res}
				})
			}
		}
	}
	journal.Close()
	uC06Two.SetExhaustive(total)
	uC06Two.Done(total)
}

func TestC06Deep(t *testing.T) {
	journal := harness.OpenJournal()
	depths := []int{100, 1000, 10000, 100000}
	stackMB := 8
	if harness.Tier() == "thorough" {
		depths = []int{100, 1000, 10000, 100000, 1000000, 3000000}
		stackMB = 0
	}
	if stackMB > 0 {
		// a smaller maximum stack is a legitimate process configuration; it makes
		// unbounded recursion visible at a cheaper depth
		debug.SetMaxStack(stackMB << 20)
	}
	shard, shards := harness.Shard()
	var total int64
	idx := 0
	// one more order of magnitude for the constructs that cost at most four bytes per level:
	// a recursion with small frames needs that many levels to exhaust even the 8 MB stack
	tiny := map[string]bool{"paren": true, "unary-minus": true, "slash": true, "double-slash": true, "predicates-in-a-row": true, "plus": true, "union": true, "equals": true, "abbrev-parent": true, "predicate": true}
	extra := depths[len(depths)-1] * 10
	for _, depth := range append(append([]int{}, depths...), extra) {
		for _, c := range deepConstructs {
			if depth == extra && !tiny[c.name] {
				continue
			}
			for _, closed := range []bool{true, false} {
				idx++
				if idx%shards != shard {
					continue
				}
				in := c.build(depth, closed)
				l := &harness.Live{Property: "C06", Check: "C06/deep", Expr: clip(in),
					Params: map[string]interface{}{"construct": c.name, "depth": depth, "closed": closed, "max_stack_mb": float64(stackMB)}}
				journal.Record(l.Save())
				acc, f := checkCompileTotal(in, false, nil)
				if f != nil {
					harness.Report(t, uC06Deep, l, f)
				}
				total++
				res := "rejected"
				if acc {
					res = "accepted"
				}
				uC06Deep.Case(harness.Hash64(c.name, fmt.Sprint(depth, closed)), true, []string{"construct:" + c.name, fmt.Sprintf("depth:%d", depth), res}, func() interface{} {
					return map[string]interface{}{"construct": c.name, "depth": depth, "closed": closed, "input": clip(in), "result": res}
				})
			}
		}
	}
	for _, depth := range []int{1000, depths[3]} {
		for _, c := range deepConstructs {
			if !chainConstructs[c.name] {
				continue
			}
			for _, fr := range errorFrames {
				idx++
				if idx%shards != shard {
					continue
				}
				in := fr.open + c.build(depth, true) + fr.close
				l := &harness.Live{Property: "C06", Check: "C06/deep", Expr: clip(in),
					Params: map[string]interface{}{"construct": c.name, "frame": fr.name, "depth": depth, "closed": true, "max_stack_mb": float64(stackMB)}}
				journal.Record(l.Save())
				acc, f := checkCompileTotal(in, false, nil)
				if f != nil {
					harness.Report(t, uC06Deep, l, f)
				}
				total++
				res := "rejected"
				if acc {
					res = "accepted"
				}
				uC06Deep.Case(harness.Hash64(c.name, fr.name, fmt.Sprint(depth)), true, []string{"construct:" + c.name, "frame:" + fr.name, fmt.Sprintf("depth:%d", depth), res}, func() interface{} {
					return map[string]interface{}{"construct": c.name, "frame": fr.name, "depth": depth, "input": clip(in), "result": res}
				})
			}
		}
	}
	journal.Close()
	uC06Deep.SetExhaustive(total)
	uC06Deep.Done(total)
}

// FuzzCompile is the native coverage-guided target (thorough tier): same oracle.
func FuzzCompile(f *testing.F) {
	for _, s := range []string{"//a[@x='1']/b", "a/(b, c)", "count(//a) > 1 and not(b)", "(a | b)[1]", "p:a/@p:x", "substring('12345', 1.5, 2.6)", "a/((((b))))", "-- 1 div 0", "child::*[position() = last()]", "$x/a", "namespace::a", "a[", "'abc", "string()", "\xff(", rep("a/(", 50) + "b" + rep(")", 50)} {
		f.Add(s, byte(0))
	}
	f.Fuzz(func(t *testing.T, s string, cfg byte) {
		var ns map[string]string
		hasNS := cfg%4 != 0
		switch cfg % 4 {
		case 2:
			ns = map[string]string{}
		case 3:
			ns = map[string]string{"p": "u1"}
		}
		if _, fail := checkCompileTotal(s, hasNS, ns); fail != nil {
			t.Fatalf("VIOLATION C06 input=%q ns=%d: %s", s, cfg%4, fail)
		}
	})
}
