package checks

import (
	"sort"
	"testing"

	"pgregory.net/rapid"

	"verif/internal/harness"
	"verif/internal/xast"
	"verif/internal/xdoc"
	"verif/internal/xgen"
	"verif/internal/xref"
)

// C11 — union yields the set union, each node exactly once.

const ruleC11 = "rapid: documents over a hostile alphabet (element names a, a-1, a1, b-1-1, a-1-1; attribute names x, x-1 and a, a-1 (the same as element names: an attribute and the first child element of one element share their sibling-index path); values 1, 1-1, -1; repeated names and values, text, comments; prefixes p/pq with locals qa/a) x context x A | B (| C) with operands axis paths of 1-2 steps or flat paths, or p/(s1, s2[, s3]); operands overlapping, identical, disjoint, empty, and themselves yielding duplicates. Oracle: the multiset of node IDs yielded by Select equals set(ref(A)) U set(ref(B)), every multiplicity 1. Non-trivial: both operands non-empty and they overlap partially or are disjoint (A\\B or B\\A non-empty); distinct by (document, context, expression)."

var uC11 = harness.NewUnit("C11", "rapid-union", ruleC11)

func init() {
	harness.RegisterOracle("C11/union", func(l *harness.Live) *harness.Failure {
		_, f := oracleC11(l)
		return f
	})
}

type c11Info struct {
	want       []int
	nontrivial bool
	labels     []string
}

func operands(e xast.Expr) []xast.Expr {
	if b, ok := e.(*xast.Bin); ok && b.Op == "|" {
		return append(operands(b.L), operands(b.R)...)
	}
	return []xast.Expr{e}
}

func oracleC11(l *harness.Live) (c11Info, *harness.Failure) {
	var info c11Info
	env := &xref.Env{Doc: l.Doc}
	want, err := refNodes(l)
	if err != nil {
		return info, refFailure(err)
	}
	info.want = want.IDs()
	ids, f := engineSelect(l)
	if f != nil {
		return info, f
	}
	sorted := append([]int(nil), ids...)
	sort.Ints(sorted)
	if !harness.EqualInts(sorted, info.want) {
		note := "Select of a union is not the set union with every node exactly once"
		if harness.HasDup(ids) {
			note += " (a node was returned twice)"
		} else if len(sorted) < len(info.want) {
			note += " (distinct nodes were merged or lost)"
		}
		return info, harness.Failf(describe(l.Doc, info.want), describe(l.Doc, ids), note)
	}
	info.labels = append(shapeLabels(l.AST), sizeLabel(len(info.want)))
	// operand overlap classification from the reference
	var ops []xast.Expr
	switch x := l.AST.(type) {
	case *xast.Bin:
		ops = operands(x)
	case *xast.Path:
		// p/(s1, s2): operands are the alternatives from the prefix
		for i, s := range x.Steps {
			if q, ok := s.(*xast.SeqStep); ok {
				for _, a := range q.Alts {
					pp := &xast.Path{Abs: x.Abs, Steps: append(append([]interface{}{}, x.Steps[:i]...), a)}
					ops = append(ops, pp)
				}
			}
		}
	}
	if len(ops) >= 2 {
		sets := make([]map[int]bool, len(ops))
		nonEmpty := 0
		for i, o := range ops {
			sets[i] = map[int]bool{}
			if v, err := xref.Eval(env, o, l.Ctx); err == nil {
				if ns, ok := v.(xref.NodeSet); ok {
					for _, n := range ns {
						sets[i][n.ID] = true
					}
				}
			}
			if len(sets[i]) > 0 {
				nonEmpty++
			}
		}
		inter, onlyA, onlyB := 0, 0, 0
		for id := range sets[0] {
			if sets[1][id] {
				inter++
			} else {
				onlyA++
			}
		}
		for id := range sets[1] {
			if !sets[0][id] {
				onlyB++
			}
		}
		switch {
		case nonEmpty < 2:
			info.labels = append(info.labels, "operands:one-empty")
		case inter > 0 && (onlyA > 0 || onlyB > 0):
			info.labels = append(info.labels, "operands:partial-overlap")
		case inter > 0:
			info.labels = append(info.labels, "operands:identical")
		default:
			info.labels = append(info.labels, "operands:disjoint")
		}
		info.nontrivial = nonEmpty >= 2 && (onlyA > 0 || onlyB > 0)
	}
	return info, nil
}

func c11Doc() xgen.DocOpts {
	return xgen.DocOpts{MaxDepth: 4, MaxFan: 3, ElNames: []string{"a", "a-1", "a1", "b-1-1", "a-1-1"}, AtNames: []string{"x", "x-1", "a", "a-1"},
		Texts: []string{"1", "1-1", "-1", "a"}, AtVals: []string{"1", "1-1", "-1", ""}, MaxAttrs: 2, PElem: 7,
		NS: &xgen.NSOpts{Prefixes: []string{"", "", "", "p", "pq"}, URIs: []string{"", "u"}}}
}

func TestC11Rapid(t *testing.T) {
	runRapid(t, uC11, func(rt *rapid.T) {
		o := c11Doc()
		if rapid.Bool().Draw(rt, "plain-names") {
			o.NS = nil
		} else {
			o.ElNames = []string{"a", "qa", "a-1"}
		}
		wide := rapid.IntRange(0, 9).Draw(rt, "wide") == 9
		if wide {
			// sibling indexes of two digits: (1,12) and (11,2) must not share an identity key
			o.WideFan, o.MaxAttrs, o.PElem = 13, 0, 9
			o.ElNames = []string{"a"}
		}
		doc := xgen.Doc(rt, o)
		ctx := xgen.Context(rt, doc, 5)
		g := xgen.NewG(rt, doc)
		g.ElNames, g.AtNames = o.ElNames, o.AtNames
		if o.NS != nil {
			// name tests follow the no-namespace-map rule: prefix and local name equal
			g.Prefixes = []string{"", "p", "pq"}
		}
		var e xast.Expr
		operand := func() xast.Expr {
			// one operand in ten is a node-set expression of another syntactic category than a
			// path of steps: the bare root, a parenthesised path, a filter expression, . or ..
			switch rapid.IntRange(0, 39).Draw(rt, "opcat") {
			case 0:
				return &xast.Path{Abs: true}
			case 1:
				return &xast.Group{X: g.AxisPath(ctx, xgen.PathOpts{MaxSteps: 2, AbsShare: 5, DSlash: 3})}
			case 2:
				return &xast.Filter{Primary: &xast.Group{X: g.FlatPath(xref.NodeSet{ctx})}, Preds: []xast.Expr{g.PosN()}}
			case 3:
				ax := rapid.SampledFrom([]string{"self", "parent"}).Draw(rt, "dot")
				return &xast.Path{Steps: []interface{}{&xast.Step{Axis: ax, Test: xast.NodeTest{Kind: "node"}, Abbr: true}}}
			}
			if rapid.Bool().Draw(rt, "flatop") {
				return g.FlatPath(xref.NodeSet{ctx})
			}
			return g.AxisPath(ctx, xgen.PathOpts{MaxSteps: 2, AbsShare: 5, DSlash: 3})
		}
		switch rapid.IntRange(0, 9).Draw(rt, "form") {
		case 0, 1, 2:
			// p/(s1, s2[, s3])
			p := g.AxisPath(ctx, xgen.PathOpts{MaxSteps: 2, AbsShare: 6, DSlash: 3})
			var cur xref.NodeSet
			if v, err := xref.Eval(g.Env, p, ctx); err == nil {
				cur, _ = v.(xref.NodeSet)
			}
			seq := &xast.SeqStep{}
			n := 1 + g.CountOf(2, "nalts")
			for i := 0; i < n; i++ {
				seq.Alts = append(seq.Alts, g.Step(cur))
			}
			p.Steps = append(p.Steps, seq)
			e = p
		case 3:
			a := operand()
			e = &xast.Bin{Op: "|", L: a, R: a} // identical operands
		case 4:
			if rapid.Bool().Draw(rt, "rightnested") {
				e = &xast.Bin{Op: "|", L: operand(), R: &xast.Bin{Op: "|", L: operand(), R: operand()}} // a | (b | c)
			} else {
				e = &xast.Bin{Op: "|", L: &xast.Bin{Op: "|", L: operand(), R: operand()}, R: operand()}
			}
		case 5:
			// a union of many operands: a | b | c | ... (up to 17)
			e = operand()
			for i, n := 0, g.CountOf(3, "noperands"); i < n; i++ {
				e = &xast.Bin{Op: "|", L: e, R: operand()}
			}
		default:
			e = &xast.Bin{Op: "|", L: operand(), R: operand()}
		}
		l := &harness.Live{Property: "C11", Check: "C11/union", Doc: doc, Ctx: ctx, AST: e, Expr: renderDrawn(rt, e), Flavour: flavourOf(rt)}
		if wide {
			// unions over the whole wide level, so that nodes with colliding index paths meet in one de-duplication table
			e = &xast.Bin{Op: "|", L: &xast.Path{Abs: true, Steps: []interface{}{xast.DSlash{}, &xast.Step{Axis: "child", Test: xast.NodeTest{Kind: rapid.SampledFrom([]string{"wild", "node"}).Draw(rt, "wtest")}, Abbr: true}}}, R: operand()}
			l.AST, l.Expr = e, xast.Render(e)
		}
		info, f := oracleC11(l)
		if wide {
			info.labels = append(info.labels, "doc:wide")
		}
		if f != nil {
			if inconclusive(uC11, f) {
				return
			}
			harness.Report(rt, uC11, l, f)
		}
		uC11.Case(harness.Mix(doc.Hash(), uint64(ctx.ID), harness.Hash64(l.Expr)), info.nontrivial, info.labels, func() interface{} {
			return l.Sample("result", describe(doc, info.want))
		})
	})
	_ = xdoc.NS
}
