package checks

import (
	"fmt"
	"testing"

	"github.com/antchfx/xpath"
	"pgregory.net/rapid"

	"verif/internal/harness"
	"verif/internal/xast"
	"verif/internal/xdoc"
	"verif/internal/xgen"
)

// C13 — absolute paths ignore the start node; relative paths compose with the context.

const ruleC13 = "rapid: document x start node n (any node, incl. attributes/text/comments) x path from the C01/C02 fragments (absolute or relative, drawn by a bit). Metamorphic oracles, engine against engine: (1) absolute p: set(Select(n,p)) = set(Select(root,p)) and count(p), boolean(p), p = '1', p != p, string-length(string-join(p, '|')) equal from both starts; (2) relative p: set(Select(n,p)) = set(Select(root, addr(n)/p)) where addr(n) = /node()[i]/.../node()[k] (and /@name for an attribute); (3) P[true()], (P), P | P select the same set as P, and boolean(P) = not(not(P)) = (set non-empty). Each set is additionally compared with the reference evaluator so that 'both wrong in the same way' cannot pass. Non-trivial: n is not the root and the result is non-empty; distinct by (document, n, expression)."

var uC13 = harness.NewUnit("C13", "rapid-context-composition", ruleC13)

func init() {
	harness.RegisterOracle("C13/composition", func(l *harness.Live) *harness.Failure {
		_, f := oracleC13(l)
		return f
	})
}

// addrSteps is the absolute address of n: child::node()[i] per level, attribute::name last.
func addrSteps(n *xdoc.Node) []interface{} {
	var rev []interface{}
	for m := n; m.Parent != nil; m = m.Parent {
		if m.Kind == xpath.AttributeNode {
			rev = append(rev, &xast.Step{Axis: "attribute", Test: xast.NodeTest{Kind: "name", Prefix: m.Prefix, Local: m.Local}, Abbr: true})
		} else {
			rev = append(rev, &xast.Step{Axis: "child", Test: xast.NodeTest{Kind: "node"}, Preds: []xast.Expr{&xast.Num{Lit: fmt.Sprint(m.Idx + 1)}}})
		}
	}
	out := make([]interface{}, 0, len(rev))
	for i := len(rev) - 1; i >= 0; i-- {
		out = append(out, rev[i])
	}
	return out
}

func oracleC13(l *harness.Live) (c struct {
	want       []int
	nontrivial bool
	labels     []string
}, f *harness.Failure) {
	p, ok := l.AST.(*xast.Path)
	if !ok || p.Start != nil {
		return c, harness.Failf("a location path", fmt.Sprintf("%T", l.AST), "C13 cases are location paths")
	}
	// "self_only": the path carries a positional predicate on an axis other than child.
	// No property states what such a step selects (C03 claims the child axis), so the
	// reference is not consulted; the relations of C13 - the same set from every start
	// node, through the composed absolute path, and under the four wrappers - hold for
	// any path and are compared engine against engine.
	selfOnly, _ := l.Params["self_only"].(bool)
	if !selfOnly {
		want, err := refNodes(l)
		if err != nil {
			return c, refFailure(err)
		}
		c.want = want.IDs()
	}
	// Every expression of the case is compiled once and that one compiled expression is used
	// from all start nodes (what a caller who compiles a path to apply it to many nodes does):
	// the relations of C13 are about one expression, whichever node it is started from.
	compiled := map[string]*xpath.Expr{}
	sel := func(e xast.Expr, from *xdoc.Node) ([]int, *harness.Failure) {
		x := *l
		x.AST, x.Expr, x.Ctx = e, xast.Render(e), from
		ce, ok := compiled[x.Expr]
		if !ok {
			var f *harness.Failure
			if ce, f = compileLive(&x); f != nil {
				f.Note = x.Expr + ": " + f.Note
				return nil, f
			}
			compiled[x.Expr] = ce
		}
		ids, f := selectWith(ce, &x)
		if f != nil {
			f.Note = x.Expr + " from " + from.Desc() + ": " + f.Note
			return nil, f
		}
		return harness.SetOf(ids), nil
	}
	evalB := func(e xast.Expr, from *xdoc.Node) (harness.Value, *harness.Failure) {
		x := *l
		x.AST, x.Expr, x.Ctx = e, xast.Render(e), from
		v, f := engineEval(&x)
		if f != nil {
			f.Note = x.Expr + " from " + from.Desc() + ": " + f.Note
		}
		return v, f
	}
	here, f := sel(p, l.Ctx)
	if f != nil {
		return c, f
	}
	if selfOnly {
		c.want = here
		c.labels = append(c.labels, "positional-last-step")
	} else if !harness.EqualInts(here, c.want) {
		return c, harness.Failf(describe(l.Doc, c.want), describe(l.Doc, here), "set(Select) from the start node differs from the XPath 1.0 denotation")
	}
	if p.Abs {
		c.labels = append(c.labels, "kind:absolute")
		fromRoot, f := sel(p, l.Doc.Root)
		if f != nil {
			return c, f
		}
		if !harness.EqualInts(here, fromRoot) {
			return c, harness.Failf(describe(l.Doc, fromRoot), describe(l.Doc, here), "an absolute path selects different nodes from "+l.Ctx.Desc()+" than from the root")
		}
		// absolute scalar expressions over the path: the same value from every start node
		for _, sc := range []xast.Expr{
			&xast.Call{Name: "count", Args: []xast.Expr{p}},
			&xast.Call{Name: "boolean", Args: []xast.Expr{p}},
			&xast.Bin{Op: "=", L: p, R: &xast.Str{S: "1"}},
			&xast.Bin{Op: "!=", L: p, R: p},
			&xast.Call{Name: "string-length", Args: []xast.Expr{&xast.Call{Name: "string-join", Args: []xast.Expr{p, &xast.Str{S: "|"}}}}},
		} {
			v1, f := evalB(sc, l.Ctx)
			if f != nil {
				return c, f
			}
			v2, f := evalB(sc, l.Doc.Root)
			if f != nil {
				return c, f
			}
			if !v1.Equal(v2) {
				return c, harness.Failf(v2.String(), v1.String(), xast.Render(sc)+" (an absolute expression) differs between "+l.Ctx.Desc()+" and the root")
			}
		}
	} else {
		c.labels = append(c.labels, "kind:relative")
		composed := &xast.Path{Abs: true, Steps: append(addrSteps(l.Ctx), p.Steps...)}
		viaRoot, f := sel(composed, l.Doc.Root)
		if f != nil {
			return c, f
		}
		if !harness.EqualInts(here, viaRoot) {
			return c, harness.Failf(describe(l.Doc, viaRoot), describe(l.Doc, here), "relative path at "+l.Ctx.Desc()+" differs from "+xast.Render(composed)+" at the root")
		}
	}
	// wrapping identities
	wraps := []struct {
		name string
		e    xast.Expr
	}{
		{"(P)", &xast.Group{X: p}},
		{"P | P", &xast.Bin{Op: "|", L: p, R: p}},
	}
	if len(p.Steps) > 0 {
		if st, ok := p.Steps[len(p.Steps)-1].(*xast.Step); ok {
			q := *p
			q.Steps = append([]interface{}{}, p.Steps...)
			s2 := *st
			s2.Preds = append(append([]xast.Expr{}, st.Preds...), &xast.Call{Name: "true"})
			q.Steps[len(q.Steps)-1] = &s2
			wraps = append(wraps, struct {
				name string
				e    xast.Expr
			}{"P[true()]", &q})
		}
	}
	wraps = append(wraps, struct {
		name string
		e    xast.Expr
	}{"(P)[true()]", &xast.Filter{Primary: &xast.Group{X: p}, Preds: []xast.Expr{&xast.Call{Name: "true"}}}})
	// Two more spellings of the same set that take the builder off its short cuts (the '//'
	// collapse, the descendant-over-descendant walk, the merge rewrite are not applied
	// under a predicate or across a self step): [true()] appended to EVERY step, and a
	// self::node() step inserted after one of the steps.
	// (Not for the engine-against-engine cases: what a positional predicate behind another
	// predicate selects is claimed by nothing, and C13 names only the four wrappers above;
	// for paths the reference pins, these spellings are paths of the same denotation.)
	if len(p.Steps) > 0 && !selfOnly {
		all := *p
		all.Steps = nil
		for _, sx := range p.Steps {
			if st, ok := sx.(*xast.Step); ok {
				s2 := *st
				s2.Preds = append(append([]xast.Expr{}, st.Preds...), &xast.Call{Name: "true"})
				all.Steps = append(all.Steps, &s2)
			} else {
				all.Steps = append(all.Steps, sx)
			}
		}
		wraps = append(wraps, struct {
			name string
			e    xast.Expr
		}{"P with [true()] on every step", &all})
		k := int(harness.Hash64(l.Expr) % uint64(len(p.Steps)))
		if _, ok := p.Steps[k].(*xast.Step); ok {
			ins := *p
			ins.Steps = append(append(append([]interface{}{}, p.Steps[:k+1]...), &xast.Step{Axis: "self", Test: xast.NodeTest{Kind: "node"}}), p.Steps[k+1:]...)
			wraps = append(wraps, struct {
				name string
				e    xast.Expr
			}{fmt.Sprintf("P with self::node() after step %d", k+1), &ins})
		}
	}
	for _, w := range wraps {
		got, f := sel(w.e, l.Ctx)
		if f != nil {
			return c, f
		}
		if !harness.EqualInts(got, here) {
			return c, harness.Failf(describe(l.Doc, here), describe(l.Doc, got), w.name+" selects a different set than P")
		}
	}
	bv, f := evalB(&xast.Call{Name: "boolean", Args: []xast.Expr{p}}, l.Ctx)
	if f != nil {
		return c, f
	}
	nn, f := evalB(&xast.Call{Name: "not", Args: []xast.Expr{&xast.Call{Name: "not", Args: []xast.Expr{p}}}}, l.Ctx)
	if f != nil {
		return c, f
	}
	if bv.Kind != "bool" || nn.Kind != "bool" || bv.B != (len(here) > 0) || nn.B != bv.B {
		return c, harness.Failf(fmt.Sprintf("bool(%v) for both", len(here) > 0), "boolean(P)="+bv.String()+" not(not(P))="+nn.String(), "truth value of a path is not 'the set is non-empty'")
	}
	c.nontrivial = l.Ctx != l.Doc.Root && len(here) > 0
	c.labels = append(c.labels, shapeLabels(p)...)
	c.labels = append(c.labels, sizeLabel(len(here)))
	switch l.Ctx.Kind {
	case xpath.AttributeNode:
		c.labels = append(c.labels, "start:attribute")
	case xpath.TextNode, xpath.CommentNode:
		c.labels = append(c.labels, "start:text/comment")
	case xpath.RootNode:
		c.labels = append(c.labels, "start:root")
	default:
		c.labels = append(c.labels, "start:element")
	}
	return c, nil
}

func TestC13Rapid(t *testing.T) {
	runRapid(t, uC13, func(rt *rapid.T) {
		o := xgen.DefaultDoc()
		shape := xgen.Shape(rt, &o)
		doc := xgen.Doc(rt, o)
		ctx := xgen.Context(rt, doc, 1)
		g := xgen.NewG(rt, doc)
		g.ExtraFuncs = true
		abs := 0
		if rapid.Bool().Draw(rt, "absolute") {
			abs = 10
		}
		var p *xast.Path
		params := map[string]interface{}{}
		if rapid.IntRange(0, 5).Draw(rt, "positional") == 5 {
			// a positional predicate on the last step, whatever its axis
			p = g.AxisPath(ctx, xgen.PathOpts{MaxSteps: 3, AbsShare: abs, DSlash: 2})
			if st, ok := p.Steps[len(p.Steps)-1].(*xast.Step); ok {
				st.Preds = []xast.Expr{g.PosPred()}
				if rapid.Bool().Draw(rt, "boolfirst") {
					// a boolean predicate in front of the positional one: a[@x][2]
					pp := g.PosPred()
					for harness.Excluded("later-last") && xast.HasCall(pp, "last") {
						pp = g.PosPred() // known finding KF-later-last: last() behind another predicate in a relative path
					}
					st.Preds = []xast.Expr{g.BoolPred(nil, 0), pp}
				}
				if st.Abbr && (st.Axis == "self" || st.Axis == "parent") {
					st.Abbr = false // .[1] and ..[1] have no abbreviated spelling
				}
				params["self_only"] = true
			}
		} else if rapid.Bool().Draw(rt, "withpreds") {
			p = g.AxisPath(ctx, xgen.PathOpts{MaxSteps: 3, PredDepth: 1, PredShare: 4, AbsShare: abs, DSlash: 2})
		} else {
			p = g.AxisPath(ctx, xgen.PathOpts{MaxSteps: 3, AbsShare: abs, DSlash: 2})
		}
		l := &harness.Live{Property: "C13", Check: "C13/composition", Doc: doc, Ctx: ctx, AST: p, Expr: xast.Render(p), Flavour: flavourOf(rt), Params: params}
		info, f := oracleC13(l)
		if f != nil {
			if inconclusive(uC13, f) {
				return
			}
			harness.Report(rt, uC13, l, f)
		}
		info.labels = append(info.labels, shape)
		uC13.Case(harness.Mix(doc.Hash(), uint64(ctx.ID), harness.Hash64(l.Expr)), info.nontrivial, info.labels, func() interface{} {
			return l.Sample("result", describe(doc, info.want))
		})
	})
}
