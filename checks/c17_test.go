package checks

import (
	"fmt"
	"strings"
	"testing"

	"pgregory.net/rapid"

	"verif/internal/harness"
	"verif/internal/xast"
	"verif/internal/xdoc"
	"verif/internal/xgen"
)

// C17 — truncated or ill-formed expressions are rejected by Compile.

const ruleC17 = "rapid x exhaustive positions: a valid expression from the well-typed generators (node-set, boolean, arithmetic, string, regex fragments; verified to be accepted, else the generator is at fault and the check fails loudly) or, one time in six, from the unconstrained generator (kept when Compile accepts it), rendered to a token stream; then EVERY applicable position of every damage operator of the statement: cut after a binary operator; after a '/' that follows a step or after '//'; after '[', '(', an opening quote, a comma; delete one ']', ')', closing quote; rename a function to an unknown name; remove required arguments (per a table of XPath's required arities; optional arguments stay optional); replace an axis name by an unknown one (name+x, and near misses: name-or-self, name-sibling, xname, names, a doubled letter ... unless that spells a real axis); malform a qualified name (p:, p:q:r, :q, 'p :q', 'p: q', p<tab>:<tab>q). Literals contain no quote characters and one quote style per expression, so a deleted quote always leaves an odd count. Oracle: Compile(damaged) returns an error (and no expression, no panic), and so does a second Compile of the same text right after it. A lone leading '/' is never cut after ('/' is a valid expression). Non-trivial: every damaged string counts once, distinct by text; labels give the count per damage class."

var uC17 = harness.NewUnit("C17", "rapid-damaged-expressions", ruleC17)

func init() {
	harness.RegisterOracle("C17/rejected", oracleC17)
}

func oracleC17(l *harness.Live) *harness.Failure {
	e, err, pan := harness.Compile(l.Expr, nil, false)
	if pan != nil {
		return harness.Failf("an error", pan.String(), "Compile panicked on a damaged expression")
	}
	if err == nil || e != nil {
		cls, _ := l.Params["damage"].(string)
		orig, _ := l.Params["original"].(string)
		return harness.Failf("Compile returns an error", "expression accepted", "damage %q applied to %q gives %q, which must be rejected", cls, orig, l.Expr)
	}
	// and again, right after the rejection: a text that was rejected stays rejected
	e2, err2, pan2 := harness.Compile(l.Expr, nil, false)
	if pan2 != nil {
		return harness.Failf("an error", pan2.String(), "the second Compile of a damaged expression panicked")
	}
	if err2 == nil || e2 != nil {
		return harness.Failf("Compile returns an error again", "expression accepted", "%q was rejected by the first Compile and accepted by the second", l.Expr)
	}
	return nil
}

var validAxis = map[string]bool{"ancestor": true, "ancestor-or-self": true, "attribute": true, "child": true, "descendant": true, "descendant-or-self": true,
	"following": true, "following-sibling": true, "namespace": true, "parent": true, "preceding": true, "preceding-sibling": true, "self": true}

var nodeTypeNames = map[string]bool{"node": true, "text": true, "comment": true, "processing-instruction": true}

// requiredArgs: the minimum number of arguments XPath requires.
var requiredArgs = map[string]int{
	"count": 1, "sum": 1, "not": 1, "boolean": 1, "floor": 1, "ceiling": 1, "round": 1,
	"contains": 2, "starts-with": 2, "ends-with": 2, "substring": 2, "substring-before": 2, "substring-after": 2,
	"translate": 3, "concat": 2, "lower-case": 1, "string-join": 2, "matches": 2, "replace": 3, "reverse": 1,
}

type damaged struct {
	class string
	text  string
}

func joinToks(toks []xast.Token) string {
	return xast.Join(toks, func(i int) string {
		if toks[i].Pad || toks[i+1].Pad || toks[i].Text == "," {
			return " "
		}
		return ""
	})
}

// damages enumerates every applicable damage of the token stream.
func damages(toks []xast.Token) []damaged {
	var out []damaged
	cut := func(class string, n int) { // keep the first n tokens
		out = append(out, damaged{class, joinToks(toks[:n])})
	}
	without := func(class string, i int) {
		c := append(append([]xast.Token{}, toks[:i]...), toks[i+1:]...)
		out = append(out, damaged{class, joinToks(c)})
	}
	replace := func(class string, i int, text string) {
		c := append([]xast.Token{}, toks...)
		c[i].Text = text
		out = append(out, damaged{class, joinToks(c)})
	}
	// matching close bracket of the '(' at i
	match := func(i int) int {
		depth := 0
		for j := i; j < len(toks); j++ {
			switch toks[j].Text {
			case "(", "[":
				depth++
			case ")", "]":
				depth--
				if depth == 0 {
					return j
				}
			}
		}
		return -1
	}
	for i, t := range toks {
		next := ""
		if i+1 < len(toks) {
			next = toks[i+1].Text
		}
		prev := ""
		if i > 0 {
			prev = toks[i-1].Text
		}
		switch {
		case t.Pad: // binary operator
			cut("cut-after-operator", i+1)
		case t.Kind == xast.TPunct && t.Text == "//":
			cut("cut-after-slash", i+1)
		case t.Kind == xast.TPunct && t.Text == "/":
			// only a slash that follows a step (or a filter expression); a leading '/' alone is valid
			leading := i == 0 || prev == "[" || prev == "(" || prev == "," || toks[i-1].Pad || (toks[i-1].Kind == xast.TPunct && prev == "-")
			if !leading {
				cut("cut-after-slash", i+1)
			}
		case t.Kind == xast.TPunct && (t.Text == "[" || t.Text == "("):
			cut("cut-after-open-bracket", i+1)
		case t.Kind == xast.TPunct && t.Text == ",":
			cut("cut-after-comma", i+1)
		case t.Kind == xast.TPunct && (t.Text == "]" || t.Text == ")"):
			without("delete-closing-bracket", i)
		case t.Kind == xast.TString:
			// cut inside the literal: the opening quote and part of the content remain
			c := append([]xast.Token{}, toks[:i+1]...)
			c[i].Text = t.Text[:1+(len(t.Text)-2)/2]
			out = append(out, damaged{"cut-after-opening-quote", joinToks(c)})
			replace("delete-closing-quote", i, t.Text[:len(t.Text)-1])
		case t.Kind == xast.TName && next == "(" && !nodeTypeNames[t.Text]:
			replace("unknown-function", i, t.Text+"-x")
			if req, ok := requiredArgs[t.Text]; ok {
				// drop arguments from the end until fewer than required remain
				end := match(i + 1)
				if end > 0 {
					// top-level commas of the argument list
					var commas []int
					depth := 0
					for j := i + 1; j <= end; j++ {
						switch toks[j].Text {
						case "(", "[":
							depth++
						case ")", "]":
							depth--
						case ",":
							if depth == 1 {
								commas = append(commas, j)
							}
						}
					}
					nargs := len(commas) + 1
					if end == i+2 {
						nargs = 0
					}
					if nargs >= req && req >= 1 {
						keep := req - 1 // one fewer than required
						var c []xast.Token
						c = append(c, toks[:i+2]...)
						if keep > 0 {
							c = append(c, toks[i+2:commas[keep-1]]...)
						}
						c = append(c, toks[end:]...)
						out = append(out, damaged{"missing-required-argument", joinToks(c)})
					}
				}
			}
		case t.Kind == xast.TName && next == "::":
			replace("unknown-axis", i, t.Text+"x")
			// near misses of real axis names: a suffix or prefix that other axes carry, a plural, a typo
			for _, cand := range []string{t.Text + "-or-self", t.Text + "-sibling", "x" + t.Text, t.Text + "s", strings.TrimSuffix(t.Text, "-or-self") + "-or-selfs", strings.Replace(t.Text, "e", "ee", 1), "ancestors-or-self", "descendent"} {
				if !validAxis[cand] && cand != t.Text {
					replace("unknown-axis", i, cand)
				}
			}
		case t.Kind == xast.TName && !t.Pad && next != "(" && prev != "$":
			// a name test: malform the qualified name
			replace("malformed-qname", i, "p:")
			replace("malformed-qname", i, "p:q:r")
			replace("malformed-qname", i, ":q")
			// a qualified name is one token: no white space around its colon
			replace("malformed-qname", i, "p :q")
			replace("malformed-qname", i, "p: q")
			replace("malformed-qname", i, "p\t:\tq")
		}
	}
	return out
}

func TestC17Rapid(t *testing.T) {
	runRapid(t, uC17, func(rt *rapid.T) {
		o := xgen.DefaultDoc()
		o.Texts = []string{"1", "2", "t", "10", "x y"}
		doc := xgen.Doc(rt, o)
		ctx := xgen.Context(rt, doc, 5)
		g := xgen.NewG(rt, doc)
		g.NoQuotes = true
		// literals must not contain quote characters
		g.StrLits = []string{"1", "2", "t", "10", "x y", "", "a", "b"}
		var e xast.Expr
		wild := false
		switch rapid.IntRange(0, 11).Draw(rt, "frag") {
		case 10, 11:
			// syntactically valid, semantically unconstrained (filter expressions, unions of
			// groups, sequences, negations, any function in any position); kept when Compile
			// accepts it
			wild = true
			e = g.WildExpr(2, xgen.WildOpts{})
		case 0, 1, 2, 3:
			e = anyNodeSetExpr(g, rt, ctx)
		case 4, 5:
			e, _ = g.BoolExpr(ctx, 2)
		case 6:
			e = g.Arith(ctx, 3)
		case 7, 8:
			e = g.StrTop(ctx, 3)
		default:
			e = &xast.Call{Name: "replace", Args: []xast.Expr{g.FlatPath(nil), &xast.Str{S: "(a)b"}, &xast.Str{S: "$1"}}}
		}
		toks := xast.Tokens(e)
		orig := joinToks(toks)
		if _, err, pan := harness.Compile(orig, nil, false); wild && (err != nil || pan != nil) {
			uC17.Skip()
			return
		} else if err != nil || pan != nil {
			l := &harness.Live{Property: "C17", Check: "C17/rejected", Expr: orig, AST: e}
			harness.Report(rt, uC17, l, harness.Failf("the undamaged expression compiles", fmt.Sprint(err, pan), "generator bug: a valid expression is rejected (see C10)"))
		}
		for _, d := range damages(toks) {
			if d.text == orig || strings.TrimSpace(d.text) == "" {
				continue
			}
			l := &harness.Live{Property: "C17", Check: "C17/rejected", Expr: d.text, Params: map[string]interface{}{"damage": d.class, "original": orig}}
			if f := oracleC17(l); f != nil {
				harness.Report(rt, uC17, l, f)
			}
			uC17.Case(harness.Hash64(d.text), true, []string{"damage:" + d.class}, func() interface{} {
				return map[string]interface{}{"original": orig, "damage": d.class, "damaged": d.text}
			})
		}
	})
	_ = xdoc.NS
}
