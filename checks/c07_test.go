package checks

import (
	"math"
	"testing"

	"pgregory.net/rapid"

	"verif/internal/harness"
	"verif/internal/xast"
	"verif/internal/xdoc"
	"verif/internal/xgen"
	"verif/internal/xref"
)

// C07 — comparison and boolean operators follow XPath 1.0 (existential on node-sets).

const ruleC07 = "rapid: document whose values are numeric, non-numeric, empty and mixed (incl. ' 12 ', '1e3', '+5', 'Inf', '0x1p4' on which Go's ParseFloat and the XPath Number grammar disagree) x context x expression from exactly the operand matrix of the statement: number op number (6 ops; NaN via number('x'), +-Infinity via 1 div 0, count()), node-set op number both orders (6 ops), string =/!= string, node-set =/!= string both orders, node-set =/!= node-set, and/or over any two of {number, string, boolean, node-set, comparison} nested to depth 2, not(boolean|node-set), boolean(any), true()/false(); node-sets are flat paths; short-circuit made observable by a right operand that raises the package's deliberate argument-type error. Oracle: Evaluate = reference evaluator (bool); the same expression as predicate of //*[...] selects accordingly; no panic of any kind. Non-trivial: a node-set operand with >= 2 nodes whose individual verdicts differ, or a NaN/infinite operand, or a short-circuit case; distinct by (document, context, expression)."

var uC07 = harness.NewUnit("C07", "rapid-comparisons", ruleC07)

func init() {
	harness.RegisterOracle("C07/compare", func(l *harness.Live) *harness.Failure {
		_, f := oracleC07(l)
		return f
	})
}

// scalarOracle evaluates l.AST with engine and reference and compares the values.
func scalarOracle(l *harness.Live) (harness.Value, *harness.Failure) {
	rv, err := xref.Eval(&xref.Env{Doc: l.Doc}, l.AST, l.Ctx)
	if err != nil {
		return harness.Value{}, harness.Failf("reference evaluates", err.Error(), "generator left the reference fragment")
	}
	want := harness.FromRef(rv)
	got, f := engineEval(l)
	if f != nil {
		return want, f
	}
	if !got.Equal(want) {
		return want, harness.Failf(want.String(), got.String(), "Evaluate differs from the XPath 1.0 value")
	}
	return want, nil
}

type c07Info struct {
	want       harness.Value
	nontrivial bool
	labels     []string
}

func oracleC07(l *harness.Live) (c07Info, *harness.Failure) {
	var info c07Info
	want, f := scalarOracle(l)
	info.want = want
	if f != nil {
		return info, f
	}
	if want.Kind != "bool" {
		return info, harness.Failf("bool", want.Kind, "C07 expressions are boolean-valued")
	}
	// the same expression used as a predicate selects accordingly
	if sc, _ := l.Params["short_circuit"].(bool); !sc {
		pe := &xast.Path{Abs: true, Steps: []interface{}{xast.DSlash{}, &xast.Step{Axis: "child", Test: xast.NodeTest{Kind: "wild"}, Abbr: true, Preds: []xast.Expr{l.AST}}}}
		pl := *l
		pl.AST, pl.Expr = pe, xast.Render(pe)
		wantNodes, err := refNodes(&pl)
		if err == nil {
			ids, f := engineSelect(&pl)
			if f != nil {
				if f == cappedFailure {
					return info, f
				}
				f.Note = "as predicate " + pl.Expr + ": " + f.Note
				return info, f
			}
			if got := harness.SetOf(ids); !harness.EqualInts(got, wantNodes.IDs()) {
				return info, harness.Failf(describe(l.Doc, wantNodes.IDs()), describe(l.Doc, got), "as predicate "+pl.Expr+": selected set differs")
			}
		}
	}
	// classification
	env := &xref.Env{Doc: l.Doc}
	xast.Walk(l.AST, func(x xast.Expr) {
		b, ok := x.(*xast.Bin)
		if !ok || xast.Prec(b.Op) < 3 || xast.Prec(b.Op) > 4 {
			return
		}
		lv, e1 := xref.Eval(env, b.L, l.Ctx)
		rv, e2 := xref.Eval(env, b.R, l.Ctx)
		if e1 != nil || e2 != nil {
			return
		}
		for _, v := range []interface{}{lv, rv} {
			if fl, ok := v.(float64); ok && (math.IsNaN(fl) || math.IsInf(fl, 0)) {
				info.nontrivial = true
				info.labels = append(info.labels, "operand:NaN/Inf")
			}
		}
		mixed := func(ns xref.NodeSet, other interface{}, nsLeft bool) bool {
			if len(ns) < 2 {
				return false
			}
			t, fcount := 0, 0
			for _, n := range ns {
				var r bool
				if nsLeft {
					r = xref.Compare(b.Op, xref.NodeSet{n}, other)
				} else {
					r = xref.Compare(b.Op, other, xref.NodeSet{n})
				}
				if r {
					t++
				} else {
					fcount++
				}
			}
			return t > 0 && fcount > 0
		}
		ln, lok := lv.(xref.NodeSet)
		rn, rok := rv.(xref.NodeSet)
		switch {
		case lok && rok:
			info.labels = append(info.labels, "pair:nodeset-nodeset")
			if mixed(ln, rv, true) || mixed(rn, lv, false) {
				info.nontrivial = true
				info.labels = append(info.labels, "nodeset:mixed-verdicts")
			}
		case lok:
			info.labels = append(info.labels, "pair:nodeset-atom")
			if mixed(ln, rv, true) {
				info.nontrivial = true
				info.labels = append(info.labels, "nodeset:mixed-verdicts")
			}
		case rok:
			info.labels = append(info.labels, "pair:atom-nodeset")
			if mixed(rn, lv, false) {
				info.nontrivial = true
				info.labels = append(info.labels, "nodeset:mixed-verdicts")
			}
		default:
			info.labels = append(info.labels, "pair:atom-atom")
		}
	})
	if sc, _ := l.Params["short_circuit"].(bool); sc {
		info.nontrivial = true
		info.labels = append(info.labels, "short-circuit")
	}
	if want.B {
		info.labels = append(info.labels, "value:true")
	} else {
		info.labels = append(info.labels, "value:false")
	}
	return info, nil
}

func TestC07Rapid(t *testing.T) {
	runRapid(t, uC07, func(rt *rapid.T) {
		doc := xgen.Doc(rt, xgen.CmpDoc())
		ctx := xgen.Context(rt, doc, 5)
		g := xgen.NewG(rt, doc)
		e, sc := g.BoolExpr(ctx, 2)
		l := &harness.Live{Property: "C07", Check: "C07/compare", Doc: doc, Ctx: ctx, AST: e, Expr: xast.Render(e), Flavour: flavourOf(rt),
			Params: map[string]interface{}{"short_circuit": sc}}
		info, f := oracleC07(l)
		if f != nil {
			if inconclusive(uC07, f) {
				return
			}
			harness.Report(rt, uC07, l, f)
		}
		uC07.Case(harness.Mix(doc.Hash(), uint64(ctx.ID), harness.Hash64(l.Expr)), info.nontrivial, info.labels, func() interface{} {
			return l.Sample("value", info.want.String())
		})
	})
	_ = xdoc.NS
}
