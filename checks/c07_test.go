package checks

import (
	"fmt"
	"math"
	"testing"

	"pgregory.net/rapid"

	"verif/internal/harness"
	"verif/internal/xast"
	"verif/internal/xdoc"
	"verif/internal/xgen"
	"verif/internal/xref"
)

// C07 — comparison and boolean operators follow XPath 1.0 (existential on node-sets).

const ruleC07 = "rapid: document whose values are numeric, non-numeric, empty and mixed (incl. ' 12 ', '1e3', '+5', 'Inf', '0x1p4' on which Go's ParseFloat and the XPath Number grammar disagree) x context x expression from exactly the operand matrix of the statement: number op number (6 ops; NaN via number('x'), +-Infinity via 1 div 0, count()), node-set op number both orders (6 ops), string =/!= string, node-set =/!= string both orders, node-set =/!= node-set, and/or over any two of {number, string, boolean, node-set, comparison} nested to depth 2, not(boolean|node-set), boolean(any), true()/false(); node-sets are flat paths; short-circuit made observable by a right operand that raises the package's deliberate argument-type error. enum (exhaustive): every operator x every operand pair of every claimed type combination over fixed operand lists (9 numbers incl. NaN/+-Infinity, 7 strings, 8 node-set paths) on 8 documents x 3 contexts. Oracle: Evaluate = reference evaluator (bool); the same expression as predicate of //*[...] selects accordingly; no panic of any kind. Non-trivial: a node-set operand with >= 2 nodes whose individual verdicts differ, or a NaN/infinite operand, or a short-circuit case; distinct by (document, context, expression)."

var (
	uC07     = harness.NewUnit("C07", "rapid-comparisons", ruleC07)
	uC07Enum = harness.NewUnit("C07", "enum-operand-matrix", ruleC07)
)

func init() {
	harness.RegisterOracle("C07/compare", func(l *harness.Live) *harness.Failure {
		_, f := oracleC07(l)
		return f
	})
}

// scalarOracle evaluates l.AST with engine and reference and compares the values.
func scalarOracle(l *harness.Live) (harness.Value, *harness.Failure) {
	rv, err := xref.Eval(refEnvOf(l), l.AST, l.Ctx)
	if err != nil {
		return harness.Value{}, refFailure(err)
	}
	want := harness.FromRef(rv)
	got, f := engineEval(l)
	if f != nil {
		return want, f
	}
	if !got.Equal(want) {
		return want, harness.Failf(want.String(), got.String(), "Evaluate differs from the XPath 1.0 value")
	}
	return want, nil
}

type c07Info struct {
	want       harness.Value
	nontrivial bool
	labels     []string
}

func oracleC07(l *harness.Live) (c07Info, *harness.Failure) {
	var info c07Info
	want, f := scalarOracle(l)
	info.want = want
	if f != nil {
		return info, f
	}
	if want.Kind != "bool" {
		return info, harness.Failf("bool", want.Kind, "C07 expressions are boolean-valued")
	}
	if sc, _ := l.Params["short_circuit"].(bool); !sc {
		if f := sweepContexts(l); f != nil {
			return info, f
		}
	}
	// the same expression used as a predicate selects accordingly
	if sc, _ := l.Params["short_circuit"].(bool); !sc {
		pe := &xast.Path{Abs: true, Steps: []interface{}{xast.DSlash{}, &xast.Step{Axis: "child", Test: xast.NodeTest{Kind: "wild"}, Abbr: true, Preds: []xast.Expr{l.AST}}}}
		pl := *l
		pl.AST, pl.Expr = pe, xast.Render(pe)
		wantNodes, err := refNodes(&pl)
		if err == nil {
			ids, f := engineSelect(&pl)
			if f != nil {
				if f == cappedFailure {
					return info, f
				}
				f.Note = "as predicate " + pl.Expr + ": " + f.Note
				return info, f
			}
			if got := harness.SetOf(ids); !harness.EqualInts(got, wantNodes.IDs()) {
				return info, harness.Failf(describe(l.Doc, wantNodes.IDs()), describe(l.Doc, got), "as predicate "+pl.Expr+": selected set differs")
			}
		}
	}
	// classification
	env := &xref.Env{Doc: l.Doc}
	xast.Walk(l.AST, func(x xast.Expr) {
		b, ok := x.(*xast.Bin)
		if !ok || xast.Prec(b.Op) < 3 || xast.Prec(b.Op) > 4 {
			return
		}
		lv, e1 := xref.Eval(env, b.L, l.Ctx)
		rv, e2 := xref.Eval(env, b.R, l.Ctx)
		if e1 != nil || e2 != nil {
			return
		}
		for _, v := range []interface{}{lv, rv} {
			if fl, ok := v.(float64); ok && (math.IsNaN(fl) || math.IsInf(fl, 0)) {
				info.nontrivial = true
				info.labels = append(info.labels, "operand:NaN/Inf")
			}
		}
		mixed := func(ns xref.NodeSet, other interface{}, nsLeft bool) bool {
			if len(ns) < 2 {
				return false
			}
			t, fcount := 0, 0
			for _, n := range ns {
				var r bool
				if nsLeft {
					r = xref.Compare(b.Op, xref.NodeSet{n}, other)
				} else {
					r = xref.Compare(b.Op, other, xref.NodeSet{n})
				}
				if r {
					t++
				} else {
					fcount++
				}
			}
			return t > 0 && fcount > 0
		}
		ln, lok := lv.(xref.NodeSet)
		rn, rok := rv.(xref.NodeSet)
		switch {
		case lok && rok:
			info.labels = append(info.labels, "pair:nodeset-nodeset")
			if mixed(ln, rv, true) || mixed(rn, lv, false) {
				info.nontrivial = true
				info.labels = append(info.labels, "nodeset:mixed-verdicts")
			}
		case lok:
			info.labels = append(info.labels, "pair:nodeset-atom")
			if mixed(ln, rv, true) {
				info.nontrivial = true
				info.labels = append(info.labels, "nodeset:mixed-verdicts")
			}
		case rok:
			info.labels = append(info.labels, "pair:atom-nodeset")
			if mixed(rn, lv, false) {
				info.nontrivial = true
				info.labels = append(info.labels, "nodeset:mixed-verdicts")
			}
		default:
			info.labels = append(info.labels, "pair:atom-atom")
		}
	})
	if sc, _ := l.Params["short_circuit"].(bool); sc {
		info.nontrivial = true
		info.labels = append(info.labels, "short-circuit")
	}
	if want.B {
		info.labels = append(info.labels, "value:true")
	} else {
		info.labels = append(info.labels, "value:false")
	}
	return info, nil
}

func TestC07Rapid(t *testing.T) {
	runRapid(t, uC07, func(rt *rapid.T) {
		o := xgen.WithNumberish(rt, xgen.CmpDoc(), 3)
		if rapid.IntRange(0, 9).Draw(rt, "widedoc") == 9 {
			o.WideFan = 12 // node-sets of dozens of nodes
		}
		doc := xgen.Doc(rt, o)
		ctx := xgen.Context(rt, doc, 5)
		g := xgen.NewG(rt, doc)
		e, sc := g.BoolExpr(ctx, 2)
		l := &harness.Live{Property: "C07", Check: "C07/compare", Doc: doc, Ctx: ctx, AST: e, Expr: xast.Render(e), Flavour: flavourOf(rt),
			Params: map[string]interface{}{"short_circuit": sc}}
		info, f := oracleC07(l)
		if f != nil {
			if inconclusive(uC07, f) {
				return
			}
			harness.Report(rt, uC07, l, f)
		}
		uC07.Case(harness.Mix(doc.Hash(), uint64(ctx.ID), harness.Hash64(l.Expr)), info.nontrivial, info.labels, func() interface{} {
			return l.Sample("value", info.want.String())
		})
	})
	_ = xdoc.NS
}

// TestC07Matrix enumerates the operand-type matrix of the statement completely
// over fixed operand lists and rich documents: every operator x every operand
// pair of every claimed type combination.
func TestC07Matrix(t *testing.T) {
	nums := []string{"0", "1", "2.5", "-3", "10", "number('x')", "1 div 0", "-1 div 0", "count(//a)"}
	strs := []string{"''", "'1'", "'t'", "' 12 '", "'1e3'", "'10'", "string(//a)"}
	sets := []string{"//a", "//b", "//@x", "//zz", "//text()", "a", "@y", "."}
	all6 := []string{"=", "!=", "<", "<=", ">", ">="}
	eq := []string{"=", "!="}
	type combo struct {
		l, r []string
		ops  []string
		kind string
	}
	combos := []combo{
		{nums, nums, all6, "number-number"},
		{sets, nums, all6, "nodeset-number"}, {nums, sets, all6, "number-nodeset"},
		{strs, strs, eq, "string-string"},
		{sets, strs, eq, "nodeset-string"}, {strs, sets, eq, "string-nodeset"},
		{sets, sets, eq, "nodeset-nodeset"},
	}
	docs := richDocsC07(harness.EnvInt("VERIF_SEED", 1))
	shard, shards := harness.Shard()
	var total int64
	idx := 0
	for _, c := range combos {
		for _, op := range c.ops {
			for _, lt := range c.l {
				for _, rt := range c.r {
					idx++
					if idx%shards != shard {
						continue
					}
					text := lt + " " + op + " " + rt
					ast, err := parseSimpleCmp(lt, op, rt)
					if err != nil {
						t.Fatalf("harness: %v", err)
					}
					for _, d := range docs {
						for _, ctx := range spreadContexts(d, 3) {
							l := &harness.Live{Property: "C07", Check: "C07/compare", Doc: d, Ctx: ctx, AST: ast, Expr: xast.Render(ast), Params: map[string]interface{}{"short_circuit": false}}
							_ = text
							info, f := oracleC07(l)
							if f != nil {
								if f == cappedFailure {
									continue
								}
								harness.Report(t, uC07Enum, l, f)
							}
							total++
							uC07Enum.Case(harness.Mix(d.Hash(), uint64(ctx.ID), harness.Hash64(l.Expr)), info.nontrivial, append(info.labels, "matrix:"+c.kind), func() interface{} {
								return l.Sample("value", info.want.String())
							})
						}
					}
				}
			}
		}
	}
	uC07Enum.SetExhaustive(total)
	uC07Enum.Done(total)
}

// operandAST builds the AST of one of the fixed operand spellings above.
func operandAST(s string) (xast.Expr, error) {
	name := func(n string) *xast.Step {
		return &xast.Step{Axis: "child", Test: xast.NodeTest{Kind: "name", Local: n}, Abbr: true}
	}
	switch s {
	case "0", "1", "2.5", "10":
		return &xast.Num{Lit: s}, nil
	case "-3":
		return &xast.Neg{X: &xast.Num{Lit: "3"}}, nil
	case "number('x')":
		return &xast.Call{Name: "number", Args: []xast.Expr{&xast.Str{S: "x"}}}, nil
	case "1 div 0":
		return &xast.Bin{Op: "div", L: &xast.Num{Lit: "1"}, R: &xast.Num{Lit: "0"}}, nil
	case "-1 div 0":
		return &xast.Bin{Op: "div", L: &xast.Neg{X: &xast.Num{Lit: "1"}}, R: &xast.Num{Lit: "0"}}, nil
	case "count(//a)":
		return &xast.Call{Name: "count", Args: []xast.Expr{&xast.Path{Abs: true, Steps: []interface{}{xast.DSlash{}, name("a")}}}}, nil
	case "string(//a)":
		return &xast.Call{Name: "string", Args: []xast.Expr{&xast.Path{Abs: true, Steps: []interface{}{xast.DSlash{}, name("a")}}}}, nil
	case "//a", "//b", "//zz":
		return &xast.Path{Abs: true, Steps: []interface{}{xast.DSlash{}, name(s[2:])}}, nil
	case "//@x":
		return &xast.Path{Abs: true, Steps: []interface{}{xast.DSlash{}, &xast.Step{Axis: "attribute", Test: xast.NodeTest{Kind: "name", Local: "x"}, Abbr: true}}}, nil
	case "//text()":
		return &xast.Path{Abs: true, Steps: []interface{}{xast.DSlash{}, &xast.Step{Axis: "child", Test: xast.NodeTest{Kind: "text"}, Abbr: true}}}, nil
	case "a":
		return &xast.Path{Steps: []interface{}{name("a")}}, nil
	case "@y":
		return &xast.Path{Steps: []interface{}{&xast.Step{Axis: "attribute", Test: xast.NodeTest{Kind: "name", Local: "y"}, Abbr: true}}}, nil
	case ".":
		return &xast.Path{Steps: []interface{}{&xast.Step{Axis: "self", Test: xast.NodeTest{Kind: "node"}, Abbr: true}}}, nil
	}
	if len(s) >= 2 && s[0] == '\'' && s[len(s)-1] == '\'' {
		return &xast.Str{S: s[1 : len(s)-1]}, nil
	}
	return nil, fmt.Errorf("unknown operand %q", s)
}

func parseSimpleCmp(l, op, r string) (xast.Expr, error) {
	a, err := operandAST(l)
	if err != nil {
		return nil, err
	}
	b, err := operandAST(r)
	if err != nil {
		return nil, err
	}
	return &xast.Bin{Op: op, L: a, R: b}, nil
}

// richDocsC07: documents with numeric, non-numeric, empty and mixed values.
func richDocsC07(seed int) []*xdoc.Doc {
	docs := []*xdoc.Doc{
		xdoc.MustParse("<r x='1' y='t'><a>{1}</a><a>{2}</a><a>{t}</a><b x='2.5'>{ 12 }</b><b>{1e3}</b><a x='10' y=''/>{10}</r>"),
		xdoc.MustParse("<a x='-3'><a>{10}</a><b>{-3}</b><b y='1'/><a/></a>"),
		xdoc.MustParse("<b><a>{t}</a><a>{x y}</a><!--1--></b>"),
		xdoc.MustParse("<c/>"),
	}
	o := xgen.CmpDoc()
	gen := rapid.Custom(func(t *rapid.T) *xdoc.Doc { return xgen.Doc(t, o) }).Filter(func(d *xdoc.Doc) bool { return len(d.Nodes) >= 10 && len(d.Nodes) <= 30 })
	for i := 0; i < 4; i++ {
		docs = append(docs, gen.Example(seed*100+i))
	}
	return docs
}
