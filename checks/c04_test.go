package checks

import (
	"encoding/json"
	"fmt"
	"testing"

	"github.com/antchfx/xpath"
	"pgregory.net/rapid"

	"verif/internal/harness"
	"verif/internal/xast"
	"verif/internal/xdoc"
	"verif/internal/xgen"
)

// C04 — a compiled expression is a pure function of (document, context node).

const ruleC04 = "rapid, history-based: one expression drawn from the union of all fragments (node-set expressions incl. ancestor/following/preceding, union, (path)[n], last(), '//' and descendant-over-descendant, merge shapes; boolean, arithmetic and string expressions with node-set operands), compiled ONCE; two documents; a history of 2-10 actions on the shared *Expr: selectAll(doc, ctx), selectPrefix(doc, ctx, k) (iterator abandoned after k nodes), evaluate(doc, ctx), evaluatePrefix(doc, ctx, k), recompileElsewhere (an unrelated *Expr of the same text is compiled and partly consumed in between). Oracle (invariant after every action): the observation (sequence or prefix of node IDs, or scalar) equals the observation of the same action on a freshly compiled expression. Non-trivial: >= 2 actions, an earlier action with a non-empty result, and a stateful operator in the expression; distinct by (expression, documents, history)."

var uC04 = harness.NewUnit("C04", "rapid-histories", ruleC04)

func init() {
	harness.RegisterOracle("C04/history", func(l *harness.Live) *harness.Failure {
		_, f := oracleC04(l)
		return f
	})
}

// action is one step of a history.
type action struct {
	Op  string `json:"op"` // select | selectPrefix | evaluate | evaluatePrefix | recompile
	Doc int    `json:"doc"`
	Ctx int    `json:"ctx"`
	K   int    `json:"k"`
	// Plain: this action walks the document through the navigator WITHOUT the optional
	// NamespaceURL() method (names then match by prefix), the others through the one with it
	Plain bool `json:"plain,omitempty"`
}

// flavourFor is the navigator flavour of one action.
func flavourFor(l *harness.Live, plain bool) xdoc.Flavour {
	if plain {
		return xdoc.Plain
	}
	return l.Flavour
}

func historyOf(l *harness.Live) []action {
	switch h := l.Params["history"].(type) {
	case []action:
		return h
	default:
		b, _ := json.Marshal(h)
		var out []action
		_ = json.Unmarshal(b, &out)
		return out
	}
}

// observe performs one action on e and returns what a caller can see.
func observe(e *xpath.Expr, d *xdoc.Doc, f xdoc.Flavour, ctx *xdoc.Node, a action) (obs string, nonEmpty bool) {
	defer func() {
		if r := recover(); r != nil {
			obs = "panic: " + fmt.Sprint(r)
		}
	}()
	take := func(it *xpath.NodeIterator, k int) []int {
		var ids []int
		for (k < 0 || len(ids) < k) && it.MoveNext() {
			n := xdoc.NodeOf(it.Current())
			if n == nil {
				ids = append(ids, -1)
			} else {
				ids = append(ids, n.ID)
			}
			if len(ids) >= harness.MaxResults {
				break
			}
		}
		return ids
	}
	switch a.Op {
	case "select", "selectPrefix":
		k := -1
		if a.Op == "selectPrefix" {
			k = a.K
		}
		ids := take(e.Select(d.Nav(f, ctx, &xdoc.Budget{Limit: 3000000})), k)
		return fmt.Sprint("nodes", ids), len(ids) > 0
	default:
		raw := e.Evaluate(d.Nav(f, ctx, &xdoc.Budget{Limit: 3000000}))
		switch x := raw.(type) {
		case *xpath.NodeIterator:
			k := -1
			if a.Op == "evaluatePrefix" {
				k = a.K
			}
			ids := take(x, k)
			return fmt.Sprint("nodes", ids), len(ids) > 0
		case float64:
			return harness.Value{Kind: "num", F: x}.String(), true
		default:
			return fmt.Sprintf("%T(%v)", raw, raw), true
		}
	}
}

type c04Info struct {
	nontrivial bool
	labels     []string
	trace      []string
}

func oracleC04(l *harness.Live) (c04Info, *harness.Failure) {
	var info c04Info
	shared, f := compileLive(l)
	if f != nil {
		return info, f
	}
	docs := []*xdoc.Doc{l.Doc, l.Doc2}
	if l.Doc2 == nil {
		docs[1] = l.Doc
	}
	hist := historyOf(l)
	earlierNonEmpty := false
	for i, a := range hist {
		d := docs[a.Doc%2]
		ctx := d.Nodes[a.Ctx%len(d.Nodes)]
		if a.Op == "recompile" {
			other, f := compileLive(l)
			if f != nil {
				return info, f
			}
			observe(other, d, flavourFor(l, a.Plain), ctx, action{Op: "selectPrefix", K: a.K})
			info.trace = append(info.trace, "recompile")
			continue
		}
		fresh, f := compileLive(l)
		if f != nil {
			return info, f
		}
		want, _ := observe(fresh, d, flavourFor(l, a.Plain), ctx, a)
		got, ne := observe(shared, d, flavourFor(l, a.Plain), ctx, a)
		info.trace = append(info.trace, fmt.Sprintf("%s(doc%d,%s,k=%d)=%s", a.Op, a.Doc%2, ctx.Desc(), a.K, got))
		if got != want {
			return info, harness.Failf(want, got, "action %d %s on doc%d at %s: the reused compiled expression differs from a freshly compiled one", i+1, a.Op, a.Doc%2, ctx.Desc())
		}
		if i > 0 && earlierNonEmpty {
			info.nontrivial = true
		}
		if ne {
			earlierNonEmpty = true
		}
	}
	stateful := false
	for ax := range xast.AxesUsed(l.AST) {
		switch ax {
		case "ancestor", "ancestor-or-self", "following", "preceding", "following-sibling", "preceding-sibling", "descendant", "descendant-or-self", "//":
			stateful = true
			info.labels = append(info.labels, "stateful:"+ax)
		}
	}
	for _, s := range shapeLabels(l.AST) {
		if s == "shape:union" || s == "shape:filter-expr" || s == "shape:sequence" {
			stateful = true
		}
		info.labels = append(info.labels, s)
	}
	if xast.HasCall(l.AST, "last", "position", "count", "sum", "string-join") {
		stateful = true
	}
	info.nontrivial = info.nontrivial && stateful
	return info, nil
}

// anyExpr draws from the union of all fragments; nodeSet tells whether Select is meaningful.
func anyExpr(g *xgen.G, rt *rapid.T, ctx *xdoc.Node) (e xast.Expr, nodeSet bool) {
	if rapid.IntRange(0, 24).Draw(rt, "toplevel-position") == 24 {
		// position() / last() with no step in front of them: whatever the builder remembers
		// from the previous step (of this or of an earlier compilation) is what they consult
		f := &xast.Call{Name: rapid.SampledFrom([]string{"position", "last"}).Draw(rt, "posfn")}
		switch rapid.IntRange(0, 2).Draw(rt, "posform") {
		case 0:
			return f, false
		case 1:
			return &xast.Bin{Op: "+", L: f, R: &xast.Num{Lit: "1"}}, false
		}
		return &xast.Call{Name: "string", Args: []xast.Expr{f}}, false
	}
	switch rapid.IntRange(0, 16).Draw(rt, "anyfrag") {
	case 10, 11, 12, 13:
		// unconstrained expression: predicates in any order, nested filters, any operand types
		e = g.WildExpr(3, xgen.WildOpts{})
		switch x := e.(type) {
		case *xast.Path:
			return e, x.Start == nil
		case *xast.Bin:
			return e, x.Op == "|"
		}
		return e, false
	case 0, 1, 2, 3, 4, 5:
		return anyNodeSetExpr(g, rt, ctx), true
	case 14:
		return mergedStateful(g, rt, ctx), true
	case 15:
		// A or B / A and B over node-sets, handed to Select as well: the engine answers that with
		// nodes of its own choosing (no property says which), but it has to be the same answer at
		// every use of the compiled expression and from every goroutine
		o := xgen.PathOpts{MaxSteps: 2, AbsShare: 4, DSlash: 3}
		return &xast.Bin{Op: rapid.SampledFrom([]string{"or", "and"}).Draw(rt, "boolsel"), L: g.AxisPath(ctx, o), R: g.AxisPath(ctx, o)}, true
	case 16:
		// replace()/matches() with a literal pattern (with groups) and the other arguments taken
		// from each candidate: whatever the call site prepares once "because the pattern is
		// constant" must not depend on the first candidate it happened to meet
		at := func(n string) xast.Expr {
			return &xast.Call{Name: "string", Args: []xast.Expr{&xast.Path{Steps: []interface{}{&xast.Step{Axis: "attribute", Test: xast.NodeTest{Kind: "name", Local: n}, Abbr: true}}}}}
		}
		pat := &xast.Str{S: rapid.SampledFrom([]string{"(1)|(t)", "^(.)", "(2)?$", "(1)(0)?", "(.)(.)?", "[12t]"}).Draw(rt, "litpat")}
		var call xast.Expr = &xast.Call{Name: "replace", Args: []xast.Expr{at("x"), pat, at("y")}}
		if rapid.IntRange(0, 3).Draw(rt, "swapargs") == 0 {
			call = &xast.Call{Name: "replace", Args: []xast.Expr{at("y"), pat, at("x")}}
		}
		var pred xast.Expr
		switch rapid.IntRange(0, 2).Draw(rt, "rxpred") {
		case 0:
			pred = &xast.Bin{Op: "!=", L: call, R: at("x")}
		case 1:
			pred = &xast.Bin{Op: "=", L: call, R: &xast.Str{S: rapid.SampledFrom([]string{"", "1", "2", "t", "22", "tt"}).Draw(rt, "rxlit")}}
		default:
			pred = &xast.Call{Name: "contains", Args: []xast.Expr{call, at("y")}}
		}
		return &xast.Path{Abs: true, Steps: []interface{}{xast.DSlash{}, &xast.Step{Axis: "child", Test: xast.NodeTest{Kind: "wild"}, Abbr: true, Preds: []xast.Expr{pred}}}}, true
	case 6:
		e, _ = g.BoolExpr(ctx, 2)
		if xast.HasCall(e, "contains") {
			e = g.Comparison(ctx)
		}
		return e, false
	case 7:
		return g.Arith(ctx, 2), false
	case 8:
		return g.StrTop(ctx, 2), false
	}
	// a comparison / function call over general (non-flat) paths, possibly with stacked predicates in any order:
	// the operands are stateful queries held in closures shared by every evaluation
	var p xast.Expr
	switch rapid.IntRange(0, 3).Draw(rt, "argkind") {
	case 0:
		p = g.AxisPath(ctx, xgen.PathOpts{MaxSteps: 2, AbsShare: 3, DSlash: 3})
	case 1:
		p = g.PredExpr(ctx, 1)
	case 2:
		p = g.PosExpr(ctx)
	default:
		// stacked predicates: boolean first, then positional (and more)
		pp := g.AxisPath(ctx, xgen.PathOpts{MaxSteps: 2, AbsShare: 5, DSlash: 3})
		last := pp.Steps[len(pp.Steps)-1].(*xast.Step)
		n := rapid.IntRange(1, 3).Draw(rt, "nstack")
		for i := 0; i < n; i++ {
			if rapid.Bool().Draw(rt, "stackpos") {
				last.Preds = append(last.Preds, g.PosPred())
			} else {
				last.Preds = append(last.Preds, g.BoolPred(nil, 0))
			}
		}
		p = pp
	}
	if rapid.IntRange(0, 5).Draw(rt, "revarg") == 5 {
		// the argument as a node-set FUNCTION (statically typed "any", like a scalar function call)
		p = &xast.Call{Name: "reverse", Args: []xast.Expr{p}}
	}
	switch rapid.IntRange(0, 10).Draw(rt, "wrap") {
	case 7:
		return &xast.Call{Name: rapid.SampledFrom([]string{"name", "local-name", "namespace-uri"}).Draw(rt, "namefn"), Args: []xast.Expr{p}}, false
	case 8:
		return &xast.Call{Name: rapid.SampledFrom([]string{"string-length", "normalize-space", "number", "floor"}).Draw(rt, "strfn1"), Args: []xast.Expr{p}}, false
	case 9, 10:
		// a string built from pooled builders with an argument whose evaluation aborts for some nodes only
		// (sum of a non-numeric string, an invalid pattern taken from the document): whatever an aborted
		// evaluation leaves behind must not show in the next one
		var fragile xast.Expr
		attr := &xast.Path{Steps: []interface{}{&xast.Step{Axis: "attribute", Test: xast.NodeTest{Kind: "name", Local: rapid.SampledFrom([]string{"x", "y"}).Draw(rt, "fattr")}, Abbr: true}}}
		if rapid.Bool().Draw(rt, "fragkind") {
			fragile = &xast.Call{Name: "string", Args: []xast.Expr{&xast.Call{Name: "sum", Args: []xast.Expr{&xast.Call{Name: "string", Args: []xast.Expr{attr}}}}}}
		} else {
			fragile = &xast.Call{Name: "string", Args: []xast.Expr{&xast.Call{Name: "matches", Args: []xast.Expr{&xast.Str{S: "a"}, &xast.Call{Name: "concat", Args: []xast.Expr{&xast.Str{S: "("}, attr}}}}}}
		}
		inner := &xast.Call{Name: "concat", Args: []xast.Expr{&xast.Str{S: "k"}, &xast.Call{Name: "normalize-space", Args: []xast.Expr{&xast.Str{S: " v "}}}, fragile}}
		if rapid.Bool().Draw(rt, "fragwrap") {
			return &xast.Call{Name: "string-join", Args: []xast.Expr{&xast.Path{Abs: true, Steps: []interface{}{xast.DSlash{}, &xast.Step{Axis: "child", Test: xast.NodeTest{Kind: "wild"}, Abbr: true, Preds: []xast.Expr{&xast.Bin{Op: "!=", L: inner, R: &xast.Str{S: ""}}}}}}, &xast.Str{S: ","}}}, false
		}
		return inner, false
	case 3:
		return &xast.Call{Name: "sum", Args: []xast.Expr{p}}, false
	case 4:
		return &xast.Call{Name: "string-join", Args: []xast.Expr{p, &xast.Str{S: ","}}}, false
	case 5:
		return &xast.Call{Name: "string", Args: []xast.Expr{p}}, false
	case 6:
		return &xast.Call{Name: "not", Args: []xast.Expr{p}}, false
	case 0:
		return &xast.Bin{Op: rapid.SampledFrom([]string{"=", "!="}).Draw(rt, "op"), L: p, R: &xast.Str{S: rapid.SampledFrom([]string{"", "1", "t"}).Draw(rt, "lit")}}, false
	case 1:
		return &xast.Call{Name: "count", Args: []xast.Expr{p}}, false
	}
	return &xast.Call{Name: "boolean", Args: []xast.Expr{p}}, false
}

// mergedStateful draws P/step[...] whose predicates combine a positional test with a nested path
// that carries stacked predicates of its own (//x/a[position() < 3 and b[@q][2]], //x/a[b[@q][last()]][1]):
// the step is evaluated parent by parent, and its condition holds counters of its own that sit in
// neither a function argument nor the step's input.
func mergedStateful(g *xgen.G, rt *rapid.T, ctx *xdoc.Node) xast.Expr {
	outer := g.AxisPath(ctx, xgen.PathOpts{MaxSteps: 2, AbsShare: 4, DSlash: 3})
	last := outer.Steps[len(outer.Steps)-1].(*xast.Step)
	if last.Abbr && (last.Axis == "self" || last.Axis == "parent") {
		last.Abbr = false
	}
	inner := g.RelPath(nil, 2, 0)
	il := inner.Steps[len(inner.Steps)-1].(*xast.Step)
	if il.Abbr && (il.Axis == "self" || il.Axis == "parent") {
		il.Abbr = false
	}
	switch rapid.IntRange(0, 2).Draw(rt, "innerstack") {
	case 0:
		il.Preds = append(il.Preds, g.BoolPred(nil, 0), g.PosPred())
	case 1:
		il.Preds = append(il.Preds, g.PosPred(), g.BoolPred(nil, 0))
	default:
		il.Preds = append(il.Preds, g.PosPred())
	}
	var cond xast.Expr = inner
	if rapid.IntRange(0, 3).Draw(rt, "innercmp") == 0 {
		cond = &xast.Bin{Op: rapid.SampledFrom([]string{"=", "!="}).Draw(rt, "icop"), L: inner, R: &xast.Str{S: rapid.SampledFrom([]string{"", "1", "t"}).Draw(rt, "iclit")}}
	}
	pos := &xast.Bin{Op: rapid.SampledFrom([]string{"<", "<=", "=", ">", "!="}).Draw(rt, "mpop"), L: &xast.Call{Name: "position"}, R: g.PosN()}
	switch rapid.IntRange(0, 4).Draw(rt, "mergeform") {
	case 0:
		last.Preds = append(last.Preds, &xast.Bin{Op: "and", L: pos, R: cond})
	case 1:
		last.Preds = append(last.Preds, &xast.Bin{Op: "or", L: cond, R: pos})
	case 2:
		last.Preds = append(last.Preds, cond, g.PosPred())
	case 3:
		last.Preds = append(last.Preds, g.PosPred(), cond)
	default:
		last.Preds = append(last.Preds, &xast.Bin{Op: "and", L: cond, R: pos})
	}
	return outer
}

func TestC04Rapid(t *testing.T) {
	runRapid(t, uC04, func(rt *rapid.T) {
		base := xgen.DefaultDoc()
		// one case in six: documents with prefixes and namespaces, prefixed name tests, the
		// expression compiled with a namespace map, and the actions divided between the two
		// navigator flavours - one compiled expression serves both kinds of navigator
		nsMode := rapid.IntRange(0, 5).Draw(rt, "nsmode") == 5
		var nsmap map[string]string
		if nsMode {
			base.ElNames = xgen.ElNames2
			base.NS = &xgen.NSOpts{Prefixes: []string{"", "p", "q", "r"}, URIs: []string{"", "u1", "u2"}}
			nsmap = map[string]string{"p": rapid.SampledFrom([]string{"u1", "u2"}).Draw(rt, "bind-p"), "q": rapid.SampledFrom([]string{"u1", "u2"}).Draw(rt, "bind-q")}
		}
		shapedOpts, _ := xgen.Shaped(rt, base)
		doc := xgen.Doc(rt, shapedOpts)
		var doc2 *xdoc.Doc
		if rapid.Bool().Draw(rt, "doc2-related") {
			// a slightly edited copy: same expression, same "place", different answer
			doc2 = xgen.MutateDoc(rt, doc, base)
		} else {
			doc2 = xgen.Doc(rt, base)
		}
		ctx := xgen.Context(rt, doc, 4)
		g := xgen.NewG(rt, doc)
		g.ExtraFuncs = true
		if nsMode {
			g.ElNames = xgen.ElNames2
			g.Prefixes = []string{"p", "q"}
		}
		e, nodeSet := anyExpr(g, rt, ctx)
		if nodeSet && rapid.IntRange(0, 9).Draw(rt, "reverse") == 0 {
			e = &xast.Call{Name: "reverse", Args: []xast.Expr{e}} // a node-set function: Select is part of its contract
		}
		if c, ok := e.(*xast.Call); ok && c.Name == "reverse" {
			nodeSet = true
		}
		ops := []string{"select", "selectPrefix", "evaluate", "evaluatePrefix", "evaluate", "recompile"}
		if !nodeSet {
			ops = []string{"evaluate", "evaluate", "evaluate", "recompile"} // Select on a scalar expression is not part of the API contract
		}
		n := rapid.IntRange(2, 10).Draw(rt, "nactions")
		if rapid.IntRange(0, 19).Draw(rt, "longhistory") == 19 {
			n = rapid.IntRange(60, 70).Draw(rt, "nactions-long") // the 65th use of one compiled expression
		}
		hist := make([]action, n)
		for i := range hist {
			hist[i] = action{
				Op:  rapid.SampledFrom(ops).Draw(rt, "op"),
				Doc: rapid.IntRange(0, 1).Draw(rt, "doc"),
				Ctx: rapid.IntRange(0, 60).Draw(rt, "actx"),
				K:   rapid.IntRange(0, 3).Draw(rt, "k"),
			}
			if i == 0 || rapid.IntRange(0, 9).Draw(rt, "samectx") < 5 {
				hist[i].Ctx = ctx.ID // the guided context, where results are non-empty
				if i == 0 || rapid.Bool().Draw(rt, "samedoc") {
					hist[i].Doc = 0
				}
			}
			if !nodeSet && hist[i].Op == "recompile" {
				hist[i].K = 0
			}
			if nsMode {
				hist[i].Plain = rapid.Bool().Draw(rt, "plainnav")
			}
		}
		l := &harness.Live{Property: "C04", Check: "C04/history", Doc: doc, Doc2: doc2, Ctx: ctx, AST: e, Expr: xast.Render(e), Flavour: flavourOf(rt),
			Params: map[string]interface{}{"history": hist, "node_set": nodeSet}}
		if nsMode {
			l.Flavour, l.HasNS, l.NSMap = xdoc.NS, true, nsmap
		}
		if _, err, _ := harness.Compile(l.Expr, l.NSMap, l.HasNS); err != nil {
			uC04.Skip() // an unconstrained expression the compiler rejects
			return
		}
		info, f := oracleC04(l)
		if f != nil {
			harness.Report(rt, uC04, l, f)
		}
		info.labels = append(info.labels, fmt.Sprintf("history-len:%d", (n+1)/2*2))
		uC04.Case(harness.Mix(doc.Hash(), doc2.Hash(), harness.Hash64(l.Expr, fmt.Sprint(hist))), info.nontrivial, info.labels, func() interface{} {
			return map[string]interface{}{"expr": l.Expr, "doc": doc.String(), "doc2": doc2.String(), "history": info.trace}
		})
	})
}

// ---------------------------------------------------------------------------
// two live iterators of ONE compiled expression, advanced in a drawn order

var uC04Inter = harness.NewUnit("C04", "rapid-interleaved-iterators", ruleC04+" Second unit: two iterators obtained from the same *Expr (Select or Evaluate) on two (document, context) pairs are advanced in a drawn interleaving (the harness owns this schedule: it is a sequence of bits); each must yield exactly the sequence a freshly compiled expression yields alone. Non-trivial: both sequences non-empty and the schedule switches between the iterators at least once.")

func init() {
	harness.RegisterOracle("C04/interleaved", func(l *harness.Live) *harness.Failure {
		_, f := oracleC04Inter(l)
		return f
	})
}

// interleaveCap bounds the length of each sequence in the interleaving relation;
// the interleaved run is allowed more steps than two capped sequences need, so a
// capped expectation can never be compared with an uncapped observation.
const interleaveCap = 4000

func intsParam(l *harness.Live, k string) []int {
	b, _ := json.Marshal(l.Params[k])
	var out []int
	_ = json.Unmarshal(b, &out)
	return out
}

func oracleC04Inter(l *harness.Live) (nontrivial bool, f *harness.Failure) {
	shared, f := compileLive(l)
	if f != nil {
		return false, f
	}
	ctxs := intsParam(l, "ctxs")
	useEval := intsParam(l, "use_evaluate")
	sched := intsParam(l, "schedule")
	docs := []*xdoc.Doc{l.Doc, l.Doc2}
	if l.Doc2 == nil {
		docs[1] = l.Doc
	}
	open := func(e *xpath.Expr, i int) (it *xpath.NodeIterator, err string) {
		defer func() {
			if r := recover(); r != nil {
				err = fmt.Sprint("panic: ", r)
			}
		}()
		d := docs[i]
		nav := d.Nav(l.Flavour, d.Nodes[ctxs[i]%len(d.Nodes)], &xdoc.Budget{Limit: 3000000})
		if useEval[i] == 1 {
			v, ok := e.Evaluate(nav).(*xpath.NodeIterator)
			if !ok {
				return nil, "not a node iterator"
			}
			return v, ""
		}
		return e.Select(nav), ""
	}
	step := func(it *xpath.NodeIterator) (id int, more bool, err string) {
		defer func() {
			if r := recover(); r != nil {
				err = fmt.Sprint("panic: ", r)
			}
		}()
		if !it.MoveNext() {
			return 0, false, ""
		}
		n := xdoc.NodeOf(it.Current())
		if n == nil {
			return -1, true, ""
		}
		return n.ID, true, ""
	}
	// expectations: each iterator alone, on a fresh compile
	var want [2][]int
	for i := 0; i < 2; i++ {
		fresh, f := compileLive(l)
		if f != nil {
			return false, f
		}
		it, err := open(fresh, i)
		if err != "" {
			return false, nil // aborts alone as well: not a case for this relation
		}
		for {
			id, more, err := step(it)
			if err != "" {
				return false, nil
			}
			if !more {
				break
			}
			want[i] = append(want[i], id)
			if len(want[i]) > interleaveCap {
				return false, nil // too long for this relation (duplicates multiply on reverse axes): inconclusive
			}
		}
	}
	// the shared expression, two live iterators, drawn interleaving
	var its [2]*xpath.NodeIterator
	for i := 0; i < 2; i++ {
		it, err := open(shared, i)
		if err != "" {
			return false, harness.Failf("iterator opens", err, "opening iterator %d on the shared expression", i)
		}
		its[i] = it
	}
	var got [2][]int
	done := [2]bool{}
	switches, last := 0, -1
	for k := 0; !(done[0] && done[1]) && k < 4*interleaveCap+8; k++ {
		i := 0
		if len(sched) > 0 {
			i = sched[k%len(sched)] & 1
		}
		if done[i] {
			i = 1 - i
		}
		if last >= 0 && last != i {
			switches++
		}
		last = i
		id, more, err := step(its[i])
		if err != "" {
			return false, harness.Failf(fmt.Sprint(want[i]), err, "iterator %d of the shared expression aborted while interleaved with the other", i)
		}
		if !more {
			done[i] = true
			continue
		}
		got[i] = append(got[i], id)
	}
	for i := 0; i < 2; i++ {
		if !harness.EqualInts(got[i], want[i]) && !(len(got[i]) == 0 && len(want[i]) == 0) {
			return false, harness.Failf(describe(docs[i], want[i]), describe(docs[i], got[i]), "iterator %d (doc%d, ctx #%d) yields a different sequence when another iterator of the same compiled expression is advanced in between", i, i, ctxs[i]%len(docs[i].Nodes))
		}
	}
	return len(want[0]) > 0 && len(want[1]) > 0 && switches > 0, nil
}

func TestC04Interleaved(t *testing.T) {
	runRapid(t, uC04Inter, func(rt *rapid.T) {
		shapedOpts, _ := xgen.Shaped(rt, xgen.DefaultDoc())
		doc := xgen.Doc(rt, shapedOpts)
		var doc2 *xdoc.Doc
		switch rapid.IntRange(0, 2).Draw(rt, "doc2kind") {
		case 0:
			doc2 = doc
		case 1:
			doc2 = xgen.MutateDoc(rt, doc, xgen.DefaultDoc())
		default:
			doc2 = xgen.Doc(rt, xgen.DefaultDoc())
		}
		ctx := xgen.Context(rt, doc, 5)
		g := xgen.NewG(rt, doc)
		g.ExtraFuncs = true
		var e xast.Expr
		for tries := 0; ; tries++ {
			var ns bool
			e, ns = anyExpr(g, rt, ctx)
			if ns || tries > 3 {
				if !ns {
					e = g.AxisPath(ctx, xgen.PathOpts{MaxSteps: 3, AbsShare: 4, DSlash: 3})
				}
				break
			}
		}
		if rapid.IntRange(0, 9).Draw(rt, "rev") == 0 {
			e = &xast.Call{Name: "reverse", Args: []xast.Expr{e}}
		}
		ctxs := []int{ctx.ID, ctx.ID}
		if rapid.Bool().Draw(rt, "otherctx") {
			ctxs[1] = rapid.IntRange(0, 60).Draw(rt, "ctx2")
		}
		useEval := []int{rapid.IntRange(0, 1).Draw(rt, "ev0"), rapid.IntRange(0, 1).Draw(rt, "ev1")}
		sched := rapid.SliceOfN(rapid.IntRange(0, 1), 1, 12).Draw(rt, "schedule")
		l := &harness.Live{Property: "C04", Check: "C04/interleaved", Doc: doc, Doc2: doc2, Ctx: ctx, AST: e, Expr: xast.Render(e), Flavour: flavourOf(rt),
			Params: map[string]interface{}{"ctxs": ctxs, "use_evaluate": useEval, "schedule": sched}}
		if _, err, _ := harness.Compile(l.Expr, nil, false); err != nil {
			uC04Inter.Skip()
			return
		}
		nt, f := oracleC04Inter(l)
		if f != nil {
			harness.Report(rt, uC04Inter, l, f)
		}
		uC04Inter.Case(harness.Mix(doc.Hash(), doc2.Hash(), harness.Hash64(l.Expr, fmt.Sprint(ctxs, useEval, sched))), nt, shapeLabels(e), func() interface{} {
			return map[string]interface{}{"expr": l.Expr, "doc": doc.String(), "doc2": doc2.String(), "ctxs": ctxs, "use_evaluate": useEval, "schedule": sched}
		})
	})
}
