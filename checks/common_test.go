package checks

import (
	"fmt"
	"pgregory.net/rapid"
	"strings"

	"github.com/antchfx/xpath"

	"verif/internal/harness"
	"verif/internal/xast"
	"verif/internal/xdoc"
	"verif/internal/xgen"
	"verif/internal/xref"
)

// cappedFailure marks a case whose result sequence exceeded harness.MaxResults
// (paths over reverse axes yield duplicates combinatorially). Such a case is
// inconclusive for the value properties - it is skipped and counted, never
// reported; termination is C15's business, decided there by an operation budget.
var cappedFailure = harness.Failf("result fits the drain cap", fmt.Sprintf("more than %d results", harness.MaxResults), "inconclusive: result sequence larger than the harness cap")

// engineBudget bounds the navigator operations of one engine call in the value
// properties (nested predicates over '//' on large documents cost n^k in the engine
// too); a case that exceeds it is inconclusive, like a capped one.
const engineBudget = 30000000

// inconclusive reports (and counts) a capped case.
func inconclusive(u *harness.Unit, f *harness.Failure) bool {
	if f == cappedFailure {
		u.Skip()
		return true
	}
	return false
}

// compileLive compiles l.Expr; a compile error or panic on a generated valid expression is a failure.
// noise: things that FAIL, done in the same process right before a case (one case in
// eight, chosen by a hash of the expression): compilations the parser or the builder
// rejects and evaluations that abort half-way inside functions that use pooled or shared
// resources (string builders, the pattern cache, closures). None of this may change what
// the case itself computes afterwards; whatever such an event leaves behind - a builder
// handed back dirty, a failed load remembered, a counter not given back - shows as a
// wrong answer of the differential check that follows.
var noiseCompile = []string{"a[", "'abc", "p:q(", "a/(b", "count(", "f(x)", "a b", "//", "1 +", "matches('a', '(')",
	strings.Repeat("(", 250), strings.Repeat("a[", 120), strings.Repeat("not(", 60) + "$v", "a/" + strings.Repeat("(", 210) + "b" + strings.Repeat(")", 210)}
var noiseEvaluate = []string{
	"concat('k', 'l', sum('x'))", "normalize-space(concat('q', sum('y')))", "string-join(//a, contains(1, 1))",
	"translate('abc', 'a', sum('z'))", "matches('a', concat('(', ''))", "replace('a', concat('[', ''), 'r')",
	"//a[contains(., 1)]", "concat(name(//a), sum(string(//a)))", "substring-after('x', sum('w'))", "reverse(1)",
	"//a[position() = sum('v')]", "count(//a[last() = sum('u')])",
	// an abort after a stateful query has recorded something: union and sequence (identity
	// table), ancestor (table), following/preceding, descendant, merge (buffer), filter (positions)
	"//a | //b | //a[contains(., 1)]", "//a/(b, a, a[contains(1, 1)])", "//a/ancestor-or-self::*[sum('t') = 1]",
	"//b/preceding::*[contains(1, 1)]", "//a/following::*[sum('s') = 1]", "//a//*[contains(1, 1)]", "//a/a[1][contains(1, 1)]",
	"//a[@x][1][sum('r') = 1]", "concat('zz', replace('b', '(', 'c'))", "normalize-space(concat(' q ', replace('b', '[', 'c')))",
}
var noiseDoc = xdoc.MustParse("<a x='1'><a>{t}</a><b/></a>")

func noise(l *harness.Live) {
	h := harness.Hash64(l.Expr)
	if h%8 != 1 {
		return
	}
	for i := uint64(0); i < 3; i++ {
		func() {
			defer func() { _ = recover() }()
			_, _ = xpath.Compile(noiseCompile[(h/8+i*7)%uint64(len(noiseCompile))])
		}()
		func() {
			defer func() { _ = recover() }()
			e, err := xpath.Compile(noiseEvaluate[(h/64+i*5)%uint64(len(noiseEvaluate))])
			if err != nil {
				return
			}
			it := e.Select(noiseDoc.Nav(xdoc.NS, noiseDoc.Root, &xdoc.Budget{Limit: 100000}))
			for k := 0; k < 3 && it.MoveNext(); k++ {
			}
			_ = e.Evaluate(noiseDoc.Nav(xdoc.NS, noiseDoc.Root, &xdoc.Budget{Limit: 100000}))
		}()
	}
}

func compileLive(l *harness.Live) (*xpath.Expr, *harness.Failure) {
	noise(l)
	e, err, pan := harness.Compile(l.Expr, l.NSMap, l.HasNS)
	if pan != nil {
		return nil, harness.Failf("expression compiles", pan.String(), "Compile panicked")
	}
	if err != nil {
		return nil, harness.Failf("expression compiles", "error: "+err.Error(), "Compile rejected a valid expression")
	}
	if e == nil {
		return nil, harness.Failf("expression compiles", "nil, nil", "Compile returned neither expression nor error")
	}
	return e, nil
}

// engineSelect compiles and runs Select from l.Ctx.
func engineSelect(l *harness.Live) ([]int, *harness.Failure) {
	e, f := compileLive(l)
	if f != nil {
		return nil, f
	}
	ids, f := selectWith(e, l)
	if f != nil || !reuseSampled(l) {
		return ids, f
	}
	// One case in three: the same compiled expression once more, same document, same
	// context. Whatever a property says about Select it says about every call, so a
	// second call that differs breaks it in this property's own fragment (C04 is the
	// check that explores histories; this is one fixed history everywhere).
	ids2, f2 := selectWith(e, l)
	if f2 != nil {
		if f2 == cappedFailure {
			return ids, nil
		}
		f2.Note = "second Select on the same compiled expression: " + f2.Note
		return ids, f2
	}
	if !harness.EqualInts(ids, ids2) {
		return ids, harness.Failf(describe(l.Doc, ids), describe(l.Doc, ids2), "the second Select on the same compiled expression (same document, same context) yields a different sequence")
	}
	return ids, nil
}

// reuseSampled picks, as a function of the expression text only, the cases in which
// the compiled expression is evaluated a second time.
func reuseSampled(l *harness.Live) bool { return harness.Hash64(l.Expr)%3 == 0 }

func selectWith(e *xpath.Expr, l *harness.Live) ([]int, *harness.Failure) {
	ids, capped, pan := harness.Select(e, l.Doc, l.Flavour, l.Ctx, &xdoc.Budget{Limit: engineBudget})
	if pan != nil && pan.Budget {
		return nil, cappedFailure
	}
	if pan != nil {
		return nil, harness.Failf("Select completes", pan.String(), "Select panicked")
	}
	if capped {
		return nil, cappedFailure
	}
	return ids, nil
}

// engineEval compiles and runs Evaluate from l.Ctx.
func engineEval(l *harness.Live) (harness.Value, *harness.Failure) {
	e, f := compileLive(l)
	if f != nil {
		return harness.Value{}, f
	}
	v, f := evalWith(e, l)
	if f != nil || !reuseSampled(l) {
		return v, f
	}
	v2, f2 := evalWith(e, l)
	if f2 != nil {
		if f2 == cappedFailure {
			return v, nil
		}
		f2.Note = "second Evaluate on the same compiled expression: " + f2.Note
		return v, f2
	}
	if !v.Equal(v2) {
		return v, harness.Failf(v.String(), v2.String(), "the second Evaluate on the same compiled expression (same document, same context) gives a different value")
	}
	return v, nil
}

func evalWith(e *xpath.Expr, l *harness.Live) (harness.Value, *harness.Failure) {
	v, capped, pan := harness.Evaluate(e, l.Doc, l.Flavour, l.Ctx, &xdoc.Budget{Limit: engineBudget})
	if pan != nil && pan.Budget {
		return v, cappedFailure
	}
	if pan != nil {
		return v, harness.Failf("Evaluate completes", pan.String(), "Evaluate panicked")
	}
	if capped {
		return v, cappedFailure
	}
	return v, nil
}

// refNodes evaluates the AST with the reference evaluator and expects a node-set.
func refNodes(l *harness.Live) (xref.NodeSet, error) {
	v, err := xref.Eval(refEnvOf(l), l.AST, l.Ctx)
	if err != nil {
		return nil, err
	}
	ns, ok := v.(xref.NodeSet)
	if !ok {
		return nil, xref.OutOfDomain{Msg: "not a node-set"}
	}
	return ns, nil
}

func idsStr(ids []int) string { return fmt.Sprint(ids) }

// describe renders node IDs with their descriptions for failure notes.
func describe(d *xdoc.Doc, ids []int) string {
	s := ""
	for i, id := range ids {
		if i > 0 {
			s += ", "
		}
		if id >= 0 && id < len(d.Nodes) {
			s += d.Nodes[id].Desc()
		} else {
			s += fmt.Sprint(id)
		}
	}
	return "[" + s + "]"
}

// sizeLabel classifies a result size.
func sizeLabel(n int) string {
	switch {
	case n == 0:
		return "result:empty"
	case n == 1:
		return "result:one"
	}
	return "result:many"
}

// shapeLabels labels the builder rewrites an expression's shape triggers.
func shapeLabels(e xast.Expr) []string {
	var out []string
	seen := map[string]bool{}
	add := func(s string) {
		if !seen[s] {
			seen[s] = true
			out = append(out, s)
		}
	}
	xast.Walk(e, func(x xast.Expr) {
		switch p := x.(type) {
		case *xast.Path:
			prevDesc := false
			prevDS := false
			for _, s := range p.Steps {
				switch st := s.(type) {
				case xast.DSlash:
					add("shape://")
					prevDS = true
					continue
				case *xast.Step:
					if xast.ReverseAxis(st.Axis) {
						add("axis:reverse")
					}
					isDesc := st.Axis == "descendant" || st.Axis == "descendant-or-self"
					if isDesc && (prevDesc || prevDS) {
						add("shape:desc-over-desc")
					}
					if st.Axis == "child" && prevDesc {
						add("shape:explicit-desc-then-child")
					}
					if st.Axis == "child" && prevDS {
						add("shape://child-shortcut")
					}
					prevDesc = isDesc
					prevDS = false
				case *xast.SeqStep:
					add("shape:sequence")
					prevDesc, prevDS = false, false
				}
			}
		case *xast.Bin:
			if p.Op == "|" {
				add("shape:union")
			}
		case *xast.Filter:
			add("shape:filter-expr")
		}
	})
	return out
}

// skipKnown reports whether e falls into the exclusion class of a confirmed
// known finding (and counts the exclusion). No value property draws round(), and
// C15 handles KF-round narrowly in its oracle, so there is nothing to skip today;
// the hook stays for future classes.
func skipKnown(u *harness.Unit, e xast.Expr) bool {
	return false
}

// refFailure turns an error of the reference evaluator into the right outcome:
// an exhausted work budget is inconclusive (skipped and counted), anything else
// means the generator left the fragment the reference decides - a harness bug
// that must be loud.
func refFailure(err error) *harness.Failure {
	if od, ok := err.(xref.OutOfDomain); ok && strings.Contains(od.Msg, "work budget") {
		return cappedFailure
	}
	return harness.Failf("reference evaluates", err.Error(), "generator produced an expression outside the reference fragment")
}

// sweepContexts evaluates ONE compiled expression at every node of the document
// (at most 12, in document order, then the first again) and compares each value with
// the reference at that node. Relative arguments are empty at some nodes and not at
// others, which is the history that state carried from one evaluation into the next
// needs. Only for properties whose domain is closed under a change of context node
// (C07, C09: typed operands; not C08, whose sum()/mod operands are chosen per context).
func sweepContexts(l *harness.Live) *harness.Failure {
	if !reuseSampled(l) {
		return nil
	}
	e, f := compileLive(l)
	if f != nil {
		return f
	}
	nodes := l.Doc.Nodes
	if len(nodes) > 12 {
		nodes = nodes[:12]
	}
	nodes = append(append([]*xdoc.Node{}, nodes...), nodes[0])
	for _, n := range nodes {
		rv, err := xref.Eval(refEnvOf(l), l.AST, n)
		if err != nil {
			continue // out of the reference's domain at this node: nothing to compare (the call is skipped)
		}
		x := *l
		x.Ctx = n
		got, f := evalWith(e, &x)
		if f != nil {
			if f == cappedFailure {
				return nil
			}
			f.Note = "one compiled expression evaluated node by node, at " + n.Desc() + ": " + f.Note
			return f
		}
		if want := harness.FromRef(rv); !got.Equal(want) {
			return harness.Failf(want.String(), got.String(), "one compiled expression evaluated node by node: at %s the value differs from the XPath 1.0 value (a fresh compile is right there)", n.Desc())
		}
	}
	return nil
}

// renderDrawn spells an expression: the canonical spelling four times out of six, the
// compact one (no white space the token rules do not require: a|b, a=1, a[b]) or one
// with white space drawn for every token boundary otherwise. The value of an expression
// does not depend on its optional white space (C10), so every differential check may
// present its expressions in any of these spellings.
func renderDrawn(rt *rapid.T, e xast.Expr) string {
	switch rapid.IntRange(0, 5).Draw(rt, "spelling") {
	case 4:
		return xast.Join(xast.Tokens(e), nil)
	case 5:
		toks := xast.Tokens(e)
		pool := []string{"", "", " ", "\t", "\n ", "  "}
		seps := make([]string, len(toks))
		for i := range seps {
			seps[i] = rapid.SampledFrom(pool).Draw(rt, "ws")
		}
		return xast.Join(toks, func(i int) string { return seps[i] })
	}
	return xast.Render(e)
}

// refEnvOf is the reference evaluator's environment for a case. Under a namespace map
// (CompileWithNS) a prefixed name test matches by (URI bound to the prefix, local name),
// whatever prefix the document uses (C14); the generators draw only prefixed tests then.
func refEnvOf(l *harness.Live) *xref.Env {
	env := &xref.Env{Doc: l.Doc}
	if l.HasNS && l.NSMap != nil {
		m := l.NSMap
		env.Match = func(t xast.NodeTest, n *xdoc.Node) bool {
			if t.Prefix == "" {
				return n.Local == t.Local && n.Prefix == ""
			}
			return n.Local == t.Local && n.NS == m[t.Prefix]
		}
	}
	return env
}

// nsModeFor turns a case into a namespace case (one in six): the document gets prefixes
// p, q, r over two URIs - so one prefix is bound to different URIs in different places and
// different prefixes to one URI -, the generator draws name tests with the prefixes p and q
// only, and the expression is compiled with a map that binds them. Returns the options to
// build the document from and a function that finishes the generator and the case.
func nsModeFor(rt *rapid.T, base xgen.DocOpts) (xgen.DocOpts, func(g *xgen.G, l *harness.Live)) {
	if rapid.IntRange(0, 5).Draw(rt, "nsmode") != 5 {
		return base, func(*xgen.G, *harness.Live) {}
	}
	base.NS = &xgen.NSOpts{Prefixes: []string{"", "p", "q", "r"}, URIs: []string{"", "u1", "u2"}}
	nsmap := map[string]string{"p": rapid.SampledFrom([]string{"u1", "u2"}).Draw(rt, "bind-p"), "q": rapid.SampledFrom([]string{"u1", "u2"}).Draw(rt, "bind-q")}
	return base, func(g *xgen.G, l *harness.Live) {
		if g != nil {
			g.Prefixes = []string{"p", "q"}
			m := nsmap
			g.Env.Match = func(t xast.NodeTest, n *xdoc.Node) bool { return n.Local == t.Local && n.NS == m[t.Prefix] }
		}
		if l != nil {
			l.Flavour, l.HasNS, l.NSMap = xdoc.NS, true, nsmap
		}
	}
}
