package checks

import (
	"os"
	"path/filepath"
	"testing"

	"verif/internal/harness"
	"verif/internal/xast"
	"verif/internal/xdoc"
)

// TestWriteFindings (run with VERIF_WRITE_FINDINGS=<dir>) regenerates the
// hand-minimised case files of findings whose cases were written by hand rather
// than taken from a shrunk replay.
func TestWriteFindings(t *testing.T) {
	dir := os.Getenv("VERIF_WRITE_FINDINGS")
	if dir == "" {
		t.Skip("VERIF_WRITE_FINDINGS not set")
	}
	write := func(name, prop, check, doc string, ctx int, e xast.Expr, note string) {
		d := xdoc.MustParse(doc)
		l := &harness.Live{Property: prop, Check: check, Doc: d, Ctx: d.Nodes[ctx], AST: e, Expr: xast.Render(e)}
		c := l.Save()
		c.Note = note
		harness.WriteCase(filepath.Join(dir, name+".json"), c)
	}
	// R11: second witness (a wrong value rather than a panic on the pinned tree)
	write("FX-R11b", "C09", "C09/strings", "<a/>", 0, call("substring", lit("12345"), num("3"), num("10")), "substring('12345', 3, 10) must be '345'")
	write("FX-R11c", "C09", "C09/strings", "<a/>", 0, call("substring", lit(" "), num("0"), num("3")), "substring(' ', 0, 3) must be ' '")
	// KF-A: node-set -> string takes the first node the engine yields (nearest on a reverse axis), not the first in document order
	write("KF-A", "C02", "C02/predicates", "<r><a>{1}</a><a>{2}</a><b/></r>", 0,
		abs(ds, step("child", "name", "b", call("contains", rel(step("preceding-sibling", "name", "a")), lit("1")))),
		"contains(preceding-sibling::a, '1') converts the nearest preceding sibling, XPath converts the first in document order")
	// KF-B: count() counts the duplicates a non-flat path yields
	write("KF-B", "C02", "C02/predicates", "<a><b/><b/></a>", 0,
		abs(ds, step("child", "name", "a", bin("=", call("count", rel(step("child", "name", "b"), step("parent", "name", "a"))), num("1")))),
		"count(b/parent::a) is 2 because the parent is yielded once per b")
}
