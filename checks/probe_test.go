package checks

import (
	"fmt"
	"os"
	"strconv"
	"strings"
	"testing"

	"verif/internal/harness"
	"verif/internal/xdoc"
)

// TestProbe is a manual probe: VERIF_PROBE_DOC=<doc> VERIF_PROBE_CTX=<id>
// VERIF_PROBE_EXPRS=<newline separated expressions> prints what the engine returns.
func TestProbe(t *testing.T) {
	ds := os.Getenv("VERIF_PROBE_DOC")
	if ds == "" {
		t.Skip("no probe")
	}
	d, err := xdoc.Parse(ds)
	if err != nil {
		t.Fatal(err)
	}
	ctx, _ := strconv.Atoi(os.Getenv("VERIF_PROBE_CTX"))
	for _, n := range d.Nodes {
		fmt.Printf("   %s\n", n.Desc())
	}
	for _, ex := range strings.Split(os.Getenv("VERIF_PROBE_EXPRS"), "\n") {
		if strings.TrimSpace(ex) == "" {
			continue
		}
		l := &harness.Live{Doc: d, Ctx: d.Nodes[ctx], Expr: ex}
		e, f := compileLive(l)
		if f != nil {
			fmt.Printf("%-50s COMPILE: %s\n", ex, f.Got)
			continue
		}
		ids, f := selectWith(e, l)
		sel := idsStr(ids)
		if f != nil {
			sel = f.Got
		}
		v, f := evalWith(e, l)
		ev := v.String()
		if f != nil {
			ev = f.Got
		}
		fmt.Printf("%-50s select=%s evaluate=%s\n", ex, sel, ev)
	}
}
