package checks

import (
	"fmt"
	"testing"

	"pgregory.net/rapid"

	"verif/internal/harness"
	"verif/internal/xast"
	"verif/internal/xdoc"
	"verif/internal/xgen"
	"verif/internal/xref"
)

// C09 — string functions compute the XPath 1.0 result on their arguments.

const ruleC09 = "rapid: document with ASCII text values x context x tree of depth <= 4 over concat (2-4 args), contains, starts-with, ends-with, substring-before/after, substring (2 and 3 args; start/length -3..9 in steps of 0.5), string-length, normalize-space (0/1 arg), translate, lower-case, string-join(flat, sep), string; string arguments from an ASCII pool incl. '', runs of blanks/tab/newline, repeated letters, digits, '-'; node-set arguments are flat paths (empty, one, many nodes) taken as the string-value of their first node. enum: contains/starts-with/ends-with/substring-before/substring-after/concat over all pairs of strings over {a,b} up to length 3, translate over all (s, from) of that kind x all 'to' over {x,y} up to length 2, normalize-space and string-length over all strings over {a, blank, tab} up to length 5, lower-case over {a,B,1} up to length 3 and over every printable ASCII character alone, doubled and between two letters (all exhaustive); substring(s, start[, length]) for every s of length 0..6 and every start, length in -3..9 step 0.5 (exhaustive). Oracle: Evaluate = reference evaluator where substring is literally 'positions p with round(start) <= p < round(start)+round(length)', round = floor(x+0.5); no panic. Non-trivial: the result differs from every literal argument, or an argument is an empty node-set or the empty string; distinct by (document, context, expression)."

var (
	uC09      = harness.NewUnit("C09", "rapid-string-functions", ruleC09)
	uC09Sweep = harness.NewUnit("C09", "enum-substring-sweep", ruleC09)
	uC09Small = harness.NewUnit("C09", "enum-small-domains", ruleC09)
)

func init() {
	harness.RegisterOracle("C09/strings", func(l *harness.Live) *harness.Failure {
		_, f := oracleC09(l)
		return f
	})
}

// oracleC09: the value at the context node, and (one case in three, when the case has a
// document) the same compiled expression evaluated node by node through the document.
func oracleC09(l *harness.Live) (harness.Value, *harness.Failure) {
	want, f := scalarOracle(l)
	if f != nil || l.Doc == nil || len(l.Doc.Nodes) < 3 {
		return want, f
	}
	return want, sweepContexts(l)
}

func c09Nontrivial(l *harness.Live, want harness.Value) (bool, []string) {
	env := &xref.Env{Doc: l.Doc}
	nt := true
	var labels []string
	seen := map[string]bool{}
	xast.Walk(l.AST, func(x xast.Expr) {
		switch y := x.(type) {
		case *xast.Str:
			if want.Kind == "str" && y.S == want.S {
				nt = false
			}
			if y.S == "" && !seen["arg:empty-string"] {
				seen["arg:empty-string"] = true
			}
		case *xast.Path:
			if v, err := xref.Eval(env, y, l.Ctx); err == nil {
				if ns, ok := v.(xref.NodeSet); ok {
					switch {
					case len(ns) == 0:
						seen["arg:empty-node-set"] = true
					case len(ns) == 1:
						seen["arg:one-node"] = true
					default:
						seen["arg:many-nodes"] = true
					}
				}
			}
		case *xast.Call:
			seen["fn:"+y.Name] = true
		}
	})
	if seen["arg:empty-node-set"] || seen["arg:empty-string"] {
		nt = true
	}
	for k := range seen {
		labels = append(labels, k)
	}
	return nt, labels
}

func TestC09Rapid(t *testing.T) {
	runRapid(t, uC09, func(rt *rapid.T) {
		doc := xgen.Doc(rt, xgen.StrDoc())
		ctx := xgen.Context(rt, doc, 4)
		g := xgen.NewG(rt, doc)
		e := g.StrTop(ctx, rapid.IntRange(0, 3).Draw(rt, "depth"))
		l := &harness.Live{Property: "C09", Check: "C09/strings", Doc: doc, Ctx: ctx, AST: e, Expr: xast.Render(e), Flavour: flavourOf(rt)}
		want, f := oracleC09(l)
		if f != nil {
			if inconclusive(uC09, f) {
				return
			}
			harness.Report(rt, uC09, l, f)
		}
		nt, labels := c09Nontrivial(l, want)
		uC09.Case(harness.Mix(doc.Hash(), uint64(ctx.ID), harness.Hash64(l.Expr)), nt, labels, func() interface{} {
			return l.Sample("value", want.String())
		})
	})
}

func halfLit(k int) xast.Expr {
	neg := k < 0
	if neg {
		k = -k
	}
	s := fmt.Sprint(k / 2)
	if k%2 == 1 {
		s += ".5"
	}
	if neg {
		return &xast.Neg{X: &xast.Num{Lit: s}}
	}
	return &xast.Num{Lit: s}
}

func TestC09SubstringSweep(t *testing.T) {
	doc := xdoc.MustParse("<a/>")
	shard, shards := harness.Shard()
	var total int64
	idx := 0
	for n := 0; n <= 6; n++ {
		s := "abcdef"[:n]
		for start := -6; start <= 18; start++ {
			for length := -7; length <= 18; length++ { // -7 encodes the two-argument form
				idx++
				if idx%shards != shard {
					continue
				}
				c := &xast.Call{Name: "substring", Args: []xast.Expr{&xast.Str{S: s}, halfLit(start)}}
				if length >= -6 {
					c.Args = append(c.Args, halfLit(length))
				}
				l := &harness.Live{Property: "C09", Check: "C09/strings", Doc: doc, Ctx: doc.Root, AST: c, Expr: xast.Render(c)}
				want, f := scalarOracle(l)
				if f != nil {
					harness.Report(t, uC09Sweep, l, f)
				}
				total++
				uC09Sweep.Case(harness.Hash64(l.Expr), true, []string{fmt.Sprintf("len:%d", n)}, func() interface{} {
					return l.Sample("value", want.String())
				})
			}
		}
	}
	uC09Sweep.SetExhaustive(total)
	uC09Sweep.Done(total)
}

// TestC09SmallDomains enumerates the two- and three-argument string functions
// completely over small alphabets (exhaustive for the stated finite spaces).
func TestC09SmallDomains(t *testing.T) {
	doc := xdoc.MustParse("<a/>")
	shard, shards := harness.Shard()
	var total int64
	idx := 0
	words := func(alpha string, maxLen int) []string {
		out := []string{""}
		prev := []string{""}
		for n := 1; n <= maxLen; n++ {
			var next []string
			for _, p := range prev {
				for _, c := range alpha {
					next = append(next, p+string(c))
				}
			}
			out = append(out, next...)
			prev = next
		}
		return out
	}
	run := func(e xast.Expr, label string) {
		idx++
		if idx%shards != shard {
			return
		}
		l := &harness.Live{Property: "C09", Check: "C09/strings", Doc: doc, Ctx: doc.Root, AST: e, Expr: xast.Render(e)}
		want, f := scalarOracle(l)
		if f != nil {
			harness.Report(t, uC09Small, l, f)
		}
		total++
		uC09Small.Case(harness.Hash64(l.Expr), true, []string{label}, func() interface{} { return l.Sample("value", want.String()) })
	}
	ab := words("ab", 3)
	for _, s := range ab {
		for _, u := range ab {
			for _, fn := range []string{"contains", "starts-with", "ends-with", "substring-before", "substring-after", "concat"} {
				run(&xast.Call{Name: fn, Args: []xast.Expr{&xast.Str{S: s}, &xast.Str{S: u}}}, "fn:"+fn)
			}
		}
	}
	for _, s := range ab {
		for _, from := range ab {
			// the replacement alphabet overlaps the source alphabet, so that (from, to) pairs
			// exist whose concatenations coincide ("a","ax" / "aa","x")
			for _, to := range words("axy", 2) {
				run(&xast.Call{Name: "translate", Args: []xast.Expr{&xast.Str{S: s}, &xast.Str{S: from}, &xast.Str{S: to}}}, "fn:translate")
			}
		}
	}
	for _, s := range words("a \t", 5) {
		run(&xast.Call{Name: "normalize-space", Args: []xast.Expr{&xast.Str{S: s}}}, "fn:normalize-space")
		run(&xast.Call{Name: "string-length", Args: []xast.Expr{&xast.Str{S: s}}}, "fn:string-length")
	}
	for _, s := range words("aB1", 3) {
		run(&xast.Call{Name: "lower-case", Args: []xast.Expr{&xast.Str{S: s}}}, "fn:lower-case")
	}
	// every printable ASCII character (and a few beyond) alone, doubled, and between two
	// lower-case letters: a mapping done by hand gets the ends of a range wrong, not its middle
	for c := rune(0x20); c <= 0x7e; c++ {
		if c == '\'' || c == '"' {
			continue
		}
		for _, s := range []string{string(c), string(c) + string(c), "a" + string(c) + "z"} {
			run(&xast.Call{Name: "lower-case", Args: []xast.Expr{&xast.Str{S: s}}}, "fn:lower-case")
		}
	}
	for _, s := range []string{"À", "É", "Þ", "ß", "İ", "Σ", "Я", "Ａ", "aÀz"} {
		run(&xast.Call{Name: "lower-case", Args: []xast.Expr{&xast.Str{S: s}}}, "fn:lower-case")
	}
	uC09Small.SetExhaustive(total)
	uC09Small.Done(total)
}
