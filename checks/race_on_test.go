//go:build race

package checks

func init() { raceEnabled = true }
