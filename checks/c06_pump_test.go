package checks

import (
	"encoding/base64"
	"fmt"
	"runtime"
	"strings"
	"testing"
	"time"

	"verif/internal/harness"
)

// C06, two further bounded-exhaustive units.
//
// pumped segments: prefix + segment^n + suffix for EVERY segment of <= 3 chunks
// from a vocabulary of lexical chunks and small balanced constructs. Nesting is
// covered by the deep/mixed/two-phase units; this one covers repetition of SIBLING
// constructs, whose cost must not multiply per repetition. The criterion is the
// number of heap allocations Compile performs (sampled while it runs), not the
// wall clock: a Compile of an input of a few hundred bytes that performs more than
// pumpAllocCap allocations is reported as not terminating, and is abandoned at that
// point (the process ends with the report), so that the memory it eats stays small.
//
// short byte strings: every string of <= 3 bytes over an alphabet of hostile bytes
// (UTF-8 lead and continuation bytes, the BOM bytes, NUL, 0xFF, quotes, brackets
// and one letter): prefixes of multi-byte sequences that index arithmetic on the
// raw input gets wrong.

const pumpAllocCap = 60_000_000

var (
	uC06Pump  = harness.NewUnit("C06", "enum-pumped-segments", ruleC06)
	uC06Bytes = harness.NewUnit("C06", "enum-short-byte-strings", ruleC06)
)

var pumpChunks = []string{
	"/", "//", "a", "*", "@x", ".", "..", "|", ",", "(", ")", "[", "]",
	"(b,c)", "(b,c,d)", "(b)", "[b]", "[1]", "[b|c]", "(a|b)", "[last()]",
	" or ", " and ", "=", "+", "-", " div ", "1", "'s'", "$v", "child::", "ancestor::a",
	"not(", "count(", "f(", "text()", "b,",
}

type pumpFrame struct{ prefix, suffix string }

var pumpFrames = []pumpFrame{{"a", ""}, {"", ""}, {"(a", ")"}, {"a[", "]"}, {"count(a", ")"}}

func init() {
	harness.RegisterOracle("C06/pumped", func(l *harness.Live) *harness.Failure {
		_, _, f := checkCompileBounded(inputOf(l), pumpAllocCap)
		return f
	})
}

// checkCompileBounded runs the C06 oracle on s while sampling the allocation
// counter; more than cap allocations is a failure (Compile is abandoned then).
func checkCompileBounded(s string, cap uint64) (accepted bool, allocs uint64, f *harness.Failure) {
	var m0, m runtime.MemStats
	runtime.ReadMemStats(&m0)
	type res struct {
		acc bool
		f   *harness.Failure
	}
	ch := make(chan res, 1)
	go func() {
		acc, f := checkCompileTotal(s, false, nil)
		ch <- res{acc, f}
	}()
	tick := time.NewTicker(25 * time.Millisecond)
	defer tick.Stop()
	for {
		select {
		case r := <-ch:
			runtime.ReadMemStats(&m)
			return r.acc, m.Mallocs - m0.Mallocs, r.f
		case <-tick.C:
			runtime.ReadMemStats(&m)
			if d := m.Mallocs - m0.Mallocs; d > cap {
				return false, d, harness.Failf(fmt.Sprintf("Compile of a %d-byte input ends within %d allocations", len(s), cap),
					fmt.Sprintf("%d allocations and still running", d),
					"the cost of Compile multiplies with every repetition of a sibling construct: it does not terminate in practice and exhausts memory")
			}
		}
	}
}

func TestC06Pumped(t *testing.T) {
	journal := harness.OpenJournal()
	shard, shards := harness.Shard()
	reps := []int{40}
	if harness.Tier() == "thorough" {
		reps = []int{24, 40, 64, 150}
	}
	var total int64
	idx := 0
	var segs []string
	for _, a := range pumpChunks {
		segs = append(segs, a)
		for _, b := range pumpChunks {
			segs = append(segs, a+b)
			for _, c := range pumpChunks {
				segs = append(segs, a+b+c)
			}
		}
	}
	var maxAllocs uint64
	for _, seg := range segs {
		idx++
		if idx%shards != shard {
			continue
		}
		for fi, fr := range pumpFrames {
			// every segment with the first frame, the other frames for every fifth segment
			if fi > 0 && (idx/shards)%5 != fi {
				continue
			}
			for _, n := range reps {
				in := fr.prefix + strings.Repeat(seg, n) + fr.suffix
				l := &harness.Live{Property: "C06", Check: "C06/pumped", Expr: clip(in),
					Params: map[string]interface{}{"segment": seg, "repetitions": n, "input_b64": base64.StdEncoding.EncodeToString([]byte(in))}}
				journal.Record(l.Save())
				acc, allocs, f := checkCompileBounded(in, pumpAllocCap)
				if f != nil {
					harness.Report(t, uC06Pump, l, f)
				}
				if allocs > maxAllocs {
					maxAllocs = allocs
				}
				total++
				res := "rejected"
				if acc {
					res = "accepted"
				}
				uC06Pump.Case(harness.Hash64(in), true, []string{res, fmt.Sprintf("repetitions:%d", n)}, func() interface{} {
					return map[string]interface{}{"segment": seg, "repetitions": n, "input": clip(in), "result": res, "allocations": allocs}
				})
			}
		}
	}
	journal.Close()
	t.Logf("largest allocation count of one Compile: %d (cap %d)", maxAllocs, uint64(pumpAllocCap))
	uC06Pump.SetExhaustive(total)
	uC06Pump.Done(total)
}

var hostileBytes = []byte{0x00, 0x7f, 0x80, 0xbb, 0xbf, 0xc0, 0xc3, 0xe4, 0xef, 0xf0, 0xf4, 0xfe, 0xff, '\'', '"', '(', '[', '/', ':', '$', '@', '.', '-', 'a', '1', ' '}

func TestC06ShortBytes(t *testing.T) {
	journal := harness.OpenJournal()
	shard, shards := harness.Shard()
	var total int64
	idx := 0
	var run func(prefix []byte, left int)
	run = func(prefix []byte, left int) {
		if len(prefix) > 0 {
			idx++
			if idx%shards == shard {
				in := string(prefix)
				for cfg, ns := range []map[string]string{nil, {"p": "u"}} {
					l := &harness.Live{Property: "C06", Check: "C06/total", Expr: fmt.Sprintf("%q", in), HasNS: cfg > 0, NSMap: ns,
						Params: map[string]interface{}{"input_b64": base64.StdEncoding.EncodeToString(prefix)}}
					journal.Record(l.Save())
					acc, f := checkCompileTotal(in, cfg > 0, ns)
					if f != nil {
						harness.Report(t, uC06Bytes, l, f)
					}
					total++
					res := "rejected"
					if acc {
						res = "accepted"
					}
					uC06Bytes.Case(harness.Hash64(in, fmt.Sprint(cfg)), true, []string{res, fmt.Sprintf("length:%d", len(in))}, func() interface{} {
						return map[string]interface{}{"input": fmt.Sprintf("%q", in), "namespaces": cfg > 0, "result": res}
					})
				}
			}
		}
		if left == 0 {
			return
		}
		for _, b := range hostileBytes {
			run(append(append([]byte{}, prefix...), b), left-1)
		}
	}
	run(nil, 3)
	journal.Close()
	uC06Bytes.SetExhaustive(total)
	uC06Bytes.Done(total)
}
