// Package checks holds one executable check per property (cNN_test.go). The
// tests are run by cmd/vcheck, which builds this package from /repo's working
// tree, passes seeds and budgets, and turns the outcome into evidence.
package checks

import (
	"flag"
	"fmt"
	"os"
	"strconv"
	"testing"

	"pgregory.net/rapid"

	"verif/internal/harness"
)

func TestMain(m *testing.M) {
	code := m.Run()
	harness.Flush()
	os.Exit(code)
}

// requestedChecks is the -rapid.checks value.
func requestedChecks() int64 {
	if f := flag.Lookup("rapid.checks"); f != nil {
		if n, err := strconv.ParseInt(f.Value.String(), 10, 64); err == nil {
			return n
		}
	}
	return 100
}

// runRapid runs prop under rapid and marks the unit complete when rapid ran
// the requested number of cases without a failure.
func runRapid(t *testing.T, u *harness.Unit, prop func(rt *rapid.T)) {
	t.Helper()
	done := false
	defer func() {
		if done && !t.Failed() {
			u.Done(requestedChecks())
		}
	}()
	rapid.Check(t, prop)
	done = true
}

// replayOne re-runs a saved case through its oracle (no generator library in the loop).
func replayOne(path string) (reproduced bool, msg string, err error) {
	c, err := harness.ReadCase(path)
	if err != nil {
		return false, "", err
	}
	o := harness.LookupOracle(c.Check)
	if o == nil {
		return false, "", fmt.Errorf("no oracle named %q (have %v)", c.Check, harness.OracleNames())
	}
	l, err := c.Load()
	if err != nil {
		return false, "", err
	}
	if f := o(l); f != nil {
		return true, f.String(), nil
	}
	return false, "", nil
}

// TestReplay replays the case file named by $VERIF_REPLAY and prints
// REPLAY-RESULT: reproduced|passed|error.
func TestReplay(t *testing.T) {
	path := os.Getenv("VERIF_REPLAY")
	if path == "" {
		t.Skip("VERIF_REPLAY not set")
	}
	rep, msg, err := replayOne(path)
	switch {
	case err != nil:
		fmt.Printf("REPLAY-RESULT: error %v\n", err)
		t.Fatalf("replay error: %v", err)
	case rep:
		fmt.Printf("REPLAY-RESULT: reproduced %s\n", msg)
	default:
		fmt.Printf("REPLAY-RESULT: passed\n")
	}
}
