package checks

import (
	"fmt"
	"strings"
	"testing"

	"pgregory.net/rapid"

	"verif/internal/harness"
	"verif/internal/xast"
	"verif/internal/xdoc"
	"verif/internal/xgen"
	"verif/internal/xref"
)

// C03 — positional predicates on child steps use the XPath proximity position.

const ruleC03 = "rapid: document (2 element names, fan<=5, depth<=4: parents with different numbers of matching children) x context x path whose child-axis steps may carry a positional first predicate ([n], position() op n, position() op last(), last(), last()-n; n in 1..6) followed by 0-2 boolean predicates, anywhere incl. after '//'; plus (flat)[n] and (//name)[n] at top level, as the start of a longer path and inside predicates. enum (exhaustive): every positional form ([n], last(), last()-n, position() op last(), position() op n, n op position(); n in 1..6) x node tests {a, b, *, node(), text()} x path shapes (child step; after '//'; after a step and followed by a boolean predicate; inside a predicate; after descendant::*; (*/t)[n]; (//t)[n]) on 6 rich documents x 3 contexts. Oracle: set(Select) = reference evaluator; for (flat)[n] additionally the n-th node of the flat path in document order. Non-trivial: result non-empty and the first positional step has candidates under >= 2 parents with different fan-out (for (flat)[n]: the flat path has >= 2 nodes); distinct by (document, context, expression)."

var (
	uC03     = harness.NewUnit("C03", "rapid-positional", ruleC03)
	uC03Enum = harness.NewUnit("C03", "enum-positional-forms", ruleC03)
)

func init() {
	harness.RegisterOracle("C03/positional", func(l *harness.Live) *harness.Failure {
		_, f := oracleC03(l)
		return f
	})
}

func isPositional(p xast.Expr) bool {
	switch x := p.(type) {
	case *xast.Num:
		return true
	case *xast.Call:
		return x.Name == "last" || x.Name == "position"
	case *xast.Bin:
		return isPositional(x.L) || isPositional(x.R)
	}
	return false
}

type c03Info struct {
	want       []int
	nontrivial bool
	labels     []string
}

func oracleC03(l *harness.Live) (c03Info, *harness.Failure) {
	var info c03Info
	env := refEnvOf(l)
	want, err := refNodes(l)
	if err != nil {
		return info, refFailure(err)
	}
	info.want = want.IDs()
	ids, f := engineSelect(l)
	if f != nil {
		return info, f
	}
	got := harness.SetOf(ids)
	if !harness.EqualInts(got, info.want) {
		return info, harness.Failf(describe(l.Doc, info.want), describe(l.Doc, got), "set(Select) differs from the XPath 1.0 denotation (proximity positions)")
	}
	info.labels = append(shapeLabels(l.AST), sizeLabel(len(info.want)))
	switch x := l.AST.(type) {
	case *xast.Filter:
		// (flat)[n]...: exactly the n-th node of the flat path in document order
		info.labels = append(info.labels, "form:(flat)[n]")
		if inner, err := xref.Eval(env, x.Primary, l.Ctx); err == nil {
			if ns, ok := inner.(xref.NodeSet); ok {
				if n, ok := x.Preds[0].(*xast.Num); ok && len(x.Preds) == 1 {
					k := int(xref.StrToNum(n.Lit))
					var exp []int
					if k >= 1 && k <= len(ns) {
						exp = []int{ns[k-1].ID}
					}
					if !harness.EqualInts(ids, exp) && !(len(ids) == 0 && len(exp) == 0) {
						return info, harness.Failf(describe(l.Doc, exp), describe(l.Doc, ids), "(path)[n] is not the n-th node of the path in document order")
					}
				}
				info.nontrivial = len(ns) >= 2 && len(info.want) > 0
			}
		}
	case *xast.Path:
		if x.Start != nil {
			info.labels = append(info.labels, "form:(flat)[n]/steps")
			info.nontrivial = len(info.want) > 0
		}
		// first step with a positional first predicate
		var prefix []interface{}
		afterDS := false
		for _, s := range x.Steps {
			st, ok := s.(*xast.Step)
			if !ok {
				prefix = append(prefix, s)
				afterDS = true
				continue
			}
			if len(st.Preds) > 0 && isPositional(st.Preds[0]) {
				bare := *st
				bare.Preds = nil
				pp := &xast.Path{Abs: x.Abs, Start: x.Start, Steps: append(append([]interface{}{}, prefix...), &bare)}
				if v, err := xref.Eval(env, pp, l.Ctx); err == nil {
					if ns, ok := v.(xref.NodeSet); ok {
						per := map[*xdoc.Node]int{}
						for _, n := range ns {
							per[n.Parent]++
						}
						sizes := map[int]bool{}
						for _, c := range per {
							sizes[c] = true
						}
						if len(per) >= 2 && len(sizes) >= 2 && len(info.want) > 0 {
							info.nontrivial = true
						}
					}
				}
				if afterDS {
					info.labels = append(info.labels, "pos-after-//")
				}
				if len(st.Preds) > 1 {
					info.labels = append(info.labels, "pos-then-bool")
				}
				if xast.HasCall(st.Preds[0], "last") {
					info.labels = append(info.labels, "pos:last()")
				}
				if xast.HasCall(st.Preds[0], "position") {
					info.labels = append(info.labels, "pos:position()")
				}
				break
			}
			prefix = append(prefix, s)
			afterDS = false
		}
		// (flat)[n] inside a predicate
		for _, s := range x.Steps {
			if st, ok := s.(*xast.Step); ok {
				for _, p := range st.Preds {
					if _, ok := p.(*xast.Filter); ok {
						info.labels = append(info.labels, "form:group-in-predicate")
						if len(info.want) > 0 {
							info.nontrivial = true
						}
					}
				}
			}
		}
	}
	return info, nil
}

func c03Doc() xgen.DocOpts {
	o := xgen.DefaultDoc()
	o.ElNames = xgen.ElNames2
	o.MaxFan = 5
	o.PElem = 8
	return o
}

func TestC03Rapid(t *testing.T) {
	runRapid(t, uC03, func(rt *rapid.T) {
		o := c03Doc()
		// one document in four has prefixed elements: siblings that share a local name under
		// different prefixes are different candidates of a name test (no namespace map: a test
		// prefix:local matches exactly that prefix and local name)
		prefixed := rapid.IntRange(0, 3).Draw(rt, "prefixed") == 3
		if prefixed {
			o.NS = &xgen.NSOpts{Prefixes: []string{"", "p", "p", "q"}, URIs: []string{"", "u"}}
		}
		nsFinish := func(*xgen.G, *harness.Live) {}
		if !prefixed {
			// or a namespace map: a prefixed test then matches by URI, and siblings that spell the
			// same prefix over different URIs are NOT candidates of one another's tests
			o, nsFinish = nsModeFor(rt, o)
		}
		shape := xgen.Shape(rt, &o)
		doc := xgen.Doc(rt, o)
		ctx := xgen.Context(rt, doc, 5)
		g := xgen.NewG(rt, doc)
		g.ElNames = xgen.ElNames2
		if prefixed {
			g.Prefixes = []string{"", "p", "q"}
		}
		nsFinish(g, nil)
		if shape == "doc:wide" {
			g.PosLits = []string{"1", "2", "9", "10", "11", "12", "13", "3", "010", "011", "012", "09", "10.0"} // two-digit positions, also spelt with a leading zero or a fraction
		}
		if shape == "doc:broad" {
			g.PosLits = []string{"1", "2", "15", "16", "17", "18", "31", "32", "33", "34", "016", "017", "020", "021", "032", "16.0"} // around 16 and 32
		}
		e := g.PosExpr(ctx)
		l := &harness.Live{Property: "C03", Check: "C03/positional", Doc: doc, Ctx: ctx, AST: e, Expr: renderDrawn(rt, e), Flavour: flavourOf(rt)}
		nsFinish(nil, l)
		info, f := oracleC03(l)
		if f != nil {
			if inconclusive(uC03, f) {
				return
			}
			harness.Report(rt, uC03, l, f)
		}
		info.labels = append(info.labels, shape)
		uC03.Case(harness.Mix(doc.Hash(), uint64(ctx.ID), harness.Hash64(l.Expr)), info.nontrivial, info.labels, func() interface{} {
			return l.Sample("result", describe(doc, info.want))
		})
	})
}

// TestC03Enum enumerates every positional predicate form x n in 1..6 x a fixed
// set of path shapes (child step, after '//', followed by a boolean predicate, on
// '*', 'node()' and 'text()' tests, (flat)[n], inside a predicate) on rich
// documents x contexts: exhaustive for this finite space.
func TestC03Enum(t *testing.T) {
	posForms := func(n string) []xast.Expr {
		num := &xast.Num{Lit: n}
		pos := &xast.Call{Name: "position"}
		last := &xast.Call{Name: "last"}
		out := []xast.Expr{num, last, &xast.Bin{Op: "-", L: last, R: num}, &xast.Bin{Op: "=", L: pos, R: last}, &xast.Bin{Op: "!=", L: pos, R: last}, &xast.Bin{Op: "<", L: pos, R: last}}
		for _, op := range cmpOpsC03 {
			out = append(out, &xast.Bin{Op: op, L: pos, R: num}, &xast.Bin{Op: op, L: num, R: pos})
		}
		return out
	}
	tests := []xast.NodeTest{{Kind: "name", Local: "a"}, {Kind: "name", Local: "b"}, {Kind: "wild"}, {Kind: "node"}, {Kind: "text"}}
	boolPred := &xast.Path{Steps: []interface{}{&xast.Step{Axis: "child", Test: xast.NodeTest{Kind: "wild"}, Abbr: true}}}
	docs := richDocs(6, harness.EnvInt("VERIF_SEED", 1))
	// one broad document: 40 children under the document element, 18 under one of them
	// (block buffers of 16 and 32 entries end inside these sibling lists)
	{
		var sb strings.Builder
		sb.WriteString("<a>")
		for i := 0; i < 40; i++ {
			switch {
			case i == 7:
				sb.WriteString("<b>" + strings.Repeat("<a/>", 18) + "</b>")
			case i%3 == 0:
				sb.WriteString("<b><a/></b>")
			case i%5 == 0:
				sb.WriteString("{t}")
			default:
				sb.WriteString("<a x='1'/>")
			}
		}
		sb.WriteString("</a>")
		docs = append(docs, xdoc.MustParse(sb.String()))
	}
	shard, shards := harness.Shard()
	var total int64
	idx := 0
	for _, n := range []int{1, 2, 3, 4, 5, 6, 16, 17, 18, 33} {
		for _, pf := range posForms(fmt.Sprint(n)) {
			for _, nt := range tests {
				step := func(extra ...xast.Expr) *xast.Step {
					return &xast.Step{Axis: "child", Test: nt, Abbr: true, Preds: append([]xast.Expr{pf}, extra...)}
				}
				shapes := []xast.Expr{
					&xast.Path{Steps: []interface{}{step()}},
					&xast.Path{Abs: true, Steps: []interface{}{xast.DSlash{}, step()}},
					&xast.Path{Steps: []interface{}{&xast.Step{Axis: "child", Test: xast.NodeTest{Kind: "wild"}, Abbr: true}, step(boolPred)}},
					&xast.Path{Abs: true, Steps: []interface{}{xast.DSlash{}, &xast.Step{Axis: "child", Test: xast.NodeTest{Kind: "wild"}, Abbr: true, Preds: []xast.Expr{&xast.Path{Steps: []interface{}{step()}}}}}},
					&xast.Path{Steps: []interface{}{&xast.Step{Axis: "descendant", Test: xast.NodeTest{Kind: "wild"}}, step()}},
				}
				if _, ok := pf.(*xast.Num); ok {
					shapes = append(shapes,
						&xast.Filter{Primary: &xast.Group{X: &xast.Path{Steps: []interface{}{&xast.Step{Axis: "child", Test: xast.NodeTest{Kind: "wild"}, Abbr: true}, &xast.Step{Axis: "child", Test: nt, Abbr: true}}}}, Preds: []xast.Expr{pf}},
						&xast.Filter{Primary: &xast.Group{X: &xast.Path{Abs: true, Steps: []interface{}{xast.DSlash{}, &xast.Step{Axis: "child", Test: nt, Abbr: true}}}}, Preds: []xast.Expr{pf}},
					)
				}
				for _, e := range shapes {
					idx++
					if idx%shards != shard {
						continue
					}
					expr := xast.Render(e)
					for _, d := range docs {
						for _, ctx := range spreadContexts(d, 3) {
							l := &harness.Live{Property: "C03", Check: "C03/positional", Doc: d, Ctx: ctx, AST: e, Expr: expr}
							info, f := oracleC03(l)
							if f != nil {
								if f == cappedFailure {
									continue
								}
								harness.Report(t, uC03Enum, l, f)
							}
							total++
							uC03Enum.Case(harness.Mix(d.Hash(), uint64(ctx.ID), harness.Hash64(expr)), len(info.want) > 0, info.labels, func() interface{} {
								return l.Sample("result", describe(d, info.want))
							})
						}
					}
				}
			}
		}
	}
	uC03Enum.SetExhaustive(total)
	uC03Enum.Done(total)
}

var cmpOpsC03 = []string{"=", "!=", "<", "<=", ">", ">="}
