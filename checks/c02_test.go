package checks

import (
	"fmt"
	"testing"

	"pgregory.net/rapid"

	"verif/internal/harness"
	"verif/internal/xast"
	"verif/internal/xdoc"
	"verif/internal/xgen"
	"verif/internal/xref"
)

// C02 — boolean predicates keep exactly the nodes for which the predicate is true.

const ruleC02 = "rapid: document biased to many candidates sharing ancestors/siblings (2 element names, fan<=4; one case in eight with multi-byte values and literals) x context x path of 1-3 steps over all axes whose steps carry 1-2 boolean predicates of nesting depth<=2 (path existence, =/!= literal, relational number, count(), contains()/starts-with(), local-name(), not(), and/or, true()/false()), or (path)[p1][p2]. Oracles: (1) set(Select) = reference evaluator; (2) engine-only: the selected set equals the candidates of the unfiltered last step for which a freshly compiled boolean(P) is true at that candidate alone. (3) engine-only, on documents of <= 45 nodes: the selected set equals the step-by-step evaluation in which every step is run alone from every node that reached it and every predicate alone at every candidate, each with a fresh compile. Non-trivial: >= 2 candidates reach the last predicate and the verdicts are mixed; distinct by (document, context, expression)."

var uC02 = harness.NewUnit("C02", "rapid-predicates", ruleC02)

func init() {
	harness.RegisterOracle("C02/predicates", func(l *harness.Live) *harness.Failure {
		_, f := oracleC02(l)
		return f
	})
}

// splitLastPreds returns the expression without the predicates of its last
// step (or of the outer filter), and those predicates.
func splitLastPreds(e xast.Expr) (base xast.Expr, preds []xast.Expr) {
	switch x := e.(type) {
	case *xast.Filter:
		return x.Primary, x.Preds
	case *xast.Path:
		if len(x.Steps) == 0 {
			return e, nil
		}
		st, ok := x.Steps[len(x.Steps)-1].(*xast.Step)
		if !ok || len(st.Preds) == 0 {
			return e, nil
		}
		c := *x
		c.Steps = append([]interface{}{}, x.Steps...)
		s2 := *st
		s2.Preds = nil
		c.Steps[len(c.Steps)-1] = &s2
		return &c, st.Preds
	}
	return e, nil
}

type c02Info struct {
	want       []int
	nontrivial bool
	labels     []string
}

func oracleC02(l *harness.Live) (c02Info, *harness.Failure) {
	var info c02Info
	want, err := refNodes(l)
	if err != nil {
		return info, refFailure(err)
	}
	info.want = want.IDs()
	ids, f := engineSelect(l)
	if f != nil {
		return info, f
	}
	got := harness.SetOf(ids)
	if !harness.EqualInts(got, info.want) {
		return info, harness.Failf(describe(l.Doc, info.want), describe(l.Doc, got), "set(Select) differs from the XPath 1.0 denotation of the filtered path")
	}
	// engine-only oracle: judge each candidate alone with a freshly compiled boolean(P)
	base, preds := splitLastPreds(l.AST)
	info.labels = append(shapeLabels(l.AST), sizeLabel(len(info.want)))
	if len(preds) > 0 {
		bl := *l
		bl.AST, bl.Expr = base, xast.Render(base)
		cands, f := engineSelect(&bl)
		if f != nil {
			return info, f
		}
		candSet := harness.SetOf(cands)
		var kept []int
		for _, id := range candSet {
			ok := true
			for _, p := range preds {
				pe := &xast.Call{Name: "boolean", Args: []xast.Expr{p}}
				pl := *l
				pl.AST, pl.Expr, pl.Ctx = pe, xast.Render(pe), l.Doc.Nodes[id]
				v, f := engineEval(&pl)
				if f != nil {
					f.Note = "predicate evaluated alone at candidate " + l.Doc.Nodes[id].Desc() + ": " + f.Note
					return info, f
				}
				if v.Kind != "bool" {
					return info, harness.Failf("bool", v.String(), "boolean(P) did not evaluate to a boolean")
				}
				if !v.B {
					ok = false
					break
				}
			}
			if ok {
				kept = append(kept, id)
			}
		}
		if !harness.EqualInts(kept, got) {
			return info, harness.Failf(describe(l.Doc, kept), describe(l.Doc, got), "the filtered step differs from filtering its candidates one by one with freshly compiled predicates (verdict depends on earlier candidates)")
		}
		info.nontrivial = len(candSet) >= 2 && len(got) > 0 && len(got) < len(candSet)
		if len(candSet) >= 2 {
			info.labels = append(info.labels, "cands>=2")
			parents := map[*xdoc.Node]bool{}
			for _, id := range candSet {
				parents[l.Doc.Nodes[id].Parent] = true
			}
			if len(parents) >= 2 {
				info.labels = append(info.labels, "cands-from>=2-parents")
			}
		}
		for _, p := range preds {
			for ax := range xast.AxesUsed(p) {
				info.labels = append(info.labels, "pred-axis:"+ax)
			}
			for _, fn := range []string{"count", "contains", "starts-with", "local-name", "not"} {
				if xast.HasCall(p, fn) {
					info.labels = append(info.labels, "pred-fn:"+fn)
				}
			}
		}
	}
	// third oracle, engine-only and step by step: every step is evaluated alone from every
	// node that reached it, every predicate alone at every candidate, always with a fresh
	// compile - the verdict on a candidate of ANY step (not only the last) can then not
	// depend on what was evaluated before it. Only on small documents (cost).
	if p, ok := l.AST.(*xast.Path); ok && p.Start == nil && len(l.Doc.Nodes) <= 45 {
		cur := []int{l.Ctx.ID}
		if p.Abs {
			cur = []int{0}
		}
		evalSet := func(e xast.Expr, from int) ([]int, *harness.Failure) {
			x := *l
			x.AST, x.Expr, x.Ctx = e, xast.Render(e), l.Doc.Nodes[from]
			ids, f := engineSelect(&x)
			return harness.SetOf(ids), f
		}
		for _, st := range p.Steps {
			var bare xast.Expr
			var preds []xast.Expr
			switch x := st.(type) {
			case xast.DSlash:
				bare = &xast.Path{Steps: []interface{}{&xast.Step{Axis: "descendant-or-self", Test: xast.NodeTest{Kind: "node"}}}}
			case *xast.Step:
				b := *x
				b.Preds = nil
				bare = &xast.Path{Steps: []interface{}{&b}}
				preds = x.Preds
			default:
				return info, nil
			}
			seen := map[int]bool{}
			var next []int
			for _, from := range cur {
				cands, f := evalSet(bare, from)
				if f != nil {
					return info, f
				}
				for _, c := range cands {
					if seen[c] {
						continue
					}
					ok := true
					for _, pr := range preds {
						pe := &xast.Call{Name: "boolean", Args: []xast.Expr{pr}}
						x := *l
						x.AST, x.Expr, x.Ctx = pe, xast.Render(pe), l.Doc.Nodes[c]
						v, f := engineEval(&x)
						if f != nil {
							return info, f
						}
						if !v.B {
							ok = false
							break
						}
					}
					if ok {
						seen[c] = true
						next = append(next, c)
					}
				}
			}
			cur = harness.SetOf(next)
		}
		if !harness.EqualInts(cur, got) && !(len(cur) == 0 && len(got) == 0) {
			return info, harness.Failf(describe(l.Doc, cur), describe(l.Doc, got), "the path differs from its step-by-step evaluation (every step and every predicate evaluated alone with fresh compiles)")
		}
		info.labels = append(info.labels, "oracle:stepwise")
	}
	return info, nil
}

func c02Doc() xgen.DocOpts {
	o := xgen.DefaultDoc()
	o.ElNames = xgen.ElNames2
	o.MaxFan = 4
	o.MaxDepth = 4
	o.PElem = 8
	return o
}

func TestC02Rapid(t *testing.T) {
	runRapid(t, uC02, func(rt *rapid.T) {
		o, nsFinish := nsModeFor(rt, c02Doc())
		shape := xgen.Shape(rt, &o)
		// one case in eight: values and literals outside ASCII - one character of two or three
		// bytes, a value that holds it, and a value that holds its first byte read as Latin-1
		multibyte := rapid.IntRange(0, 7).Draw(rt, "multibyte-values") == 7
		if multibyte {
			o.Texts = []string{"é", "café", "Ã", "中", "中文", "1", "x y", ""}
			o.AtVals = []string{"é", "café", "Ã©", "中", "1", ""}
		}
		doc := xgen.Doc(rt, o)
		ctx := xgen.Context(rt, doc, 5)
		g := xgen.NewG(rt, doc)
		g.ElNames = xgen.ElNames2
		if multibyte {
			g.StrLits = []string{"é", "Ã", "中", "caf", "é", "文", "", "1", "fé"}
		}
		g.NonFlatConv = !harness.Excluded("conversion-order")
		g.NonFlatCount = !harness.Excluded("count-duplicates")
		nsFinish(g, nil)
		e := g.PredExpr(ctx, 2)
		l := &harness.Live{Property: "C02", Check: "C02/predicates", Doc: doc, Ctx: ctx, AST: e, Expr: renderDrawn(rt, e), Flavour: flavourOf(rt)}
		nsFinish(nil, l)
		if skipKnown(uC02, e) {
			return
		}
		info, f := oracleC02(l)
		if f != nil {
			if inconclusive(uC02, f) {
				return
			}
			harness.Report(rt, uC02, l, f)
		}
		info.labels = append(info.labels, shape)
		uC02.Case(harness.Mix(doc.Hash(), uint64(ctx.ID), harness.Hash64(l.Expr)), info.nontrivial, info.labels, func() interface{} {
			return l.Sample("result", describe(doc, info.want))
		})
	})
	_ = fmt.Sprint
	_ = xref.SortSet
}
