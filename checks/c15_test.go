package checks

import (
	"fmt"
	"regexp"
	"strings"
	"testing"

	"github.com/antchfx/xpath"
	"pgregory.net/rapid"

	"verif/internal/harness"
	"verif/internal/xast"
	"verif/internal/xdoc"
	"verif/internal/xgen"
)

// C15 — a compiled expression never fails with a Go runtime error.

const ruleC15 = "rapid: 4/5 syntactically valid but semantically unconstrained expressions (any expression in any operand, argument, predicate or path-start position; every axis incl. namespace::; every function in f(...) and zero-argument form with arities 0..3; variables; sequences; one case in six with prefixed names, compiled with a namespace map and run on a navigator with or without the optional NamespaceURL() method), 1/5 token soup (1-10 tokens of the full vocabulary, brackets balanced with probability 3/4); only what Compile accepts is evaluated, on small documents (<= ~15 nodes; one in four is drawn from the shapes wide / deep / chain of 25 levels / many attributes) from any context node. enum (exhaustive): every known function applied to every argument combination over {number, one-letter string, six-letter string, multi-byte string, empty string, boolean, node-set, empty node-set} up to arity 3, every binary operator over every type pair, unary minus over every type. Oracle: Select (drained) and Evaluate (iterator drained) either complete or panic with a value that is an error but not a runtime.Error; Evaluate's result is bool, float64, string or *NodeIterator; termination is decided by the harness navigator's operation budget (2*10^7, confirmed with 4*10^7), never by wall clock: on documents of <= 16 nodes (legitimate cost there is < 10^6) running out of budget is non-termination; on the larger (wide) documents, where a nested expression legitimately costs n^k, the case is re-decided on two pruned copies of <= 16 nodes (one keeping the depth, one keeping all children of the document element) and is inconclusive if those terminate. A second exhaustive unit pumps predicates: one step (a, *, descendant::a) followed by segment^k for every segment of one or two predicate forms out of 16 (positional, last(), boolean, function-valued), k = 40 (thorough 24, 40, 80); there termination is decided by an allocation budget sampled while the evaluation runs (3*10^7), because work that never touches the document is invisible to the navigator's budget. Draining a non-node-set expression is capped at 10^4 results (a cap hit is not a violation). Non-trivial: accepted by Compile and contains a function call or mixes value types across an operator; distinct by (document, context, expression)."

var (
	uC15Rapid = harness.NewUnit("C15", "rapid-unconstrained-expressions", ruleC15)
	uC15Enum  = harness.NewUnit("C15", "enum-ill-typed-calls", ruleC15)
)

func init() {
	harness.RegisterOracle("C15/no-runtime-error", func(l *harness.Live) *harness.Failure {
		_, f := oracleC15(l)
		return f
	})
}

const c15Budget = 20000000

// c15SmallDoc: documents up to this size decide termination by the budget (the
// costliest generated expression stays below 10^6 operations on them).
const c15SmallDoc = 16

// prunedDocs returns two reductions of d with at most c15SmallDoc nodes: one that
// keeps the depth (first two children and first attribute everywhere), one that
// keeps the width (the document element with all its children, nothing below).
func prunedDocs(d *xdoc.Doc) []*xdoc.Doc {
	var cp func(n *xdoc.Node, depth int, keep func(depth, i int) bool, attrs int) *xdoc.Node
	cp = func(n *xdoc.Node, depth int, keep func(depth, i int) bool, attrs int) *xdoc.Node {
		m := &xdoc.Node{Kind: n.Kind, Prefix: n.Prefix, Local: n.Local, NS: n.NS, Value: n.Value}
		for i, a := range n.Attrs {
			if i < attrs {
				m.Attrs = append(m.Attrs, &xdoc.Node{Kind: a.Kind, Prefix: a.Prefix, Local: a.Local, NS: a.NS, Value: a.Value})
			}
		}
		for i, k := range n.Kids {
			if keep(depth+1, i) {
				m.Kids = append(m.Kids, cp(k, depth+1, keep, attrs))
			}
		}
		return m
	}
	deep := xdoc.NewDoc(cp(d.Root, 0, func(depth, i int) bool { return depth <= 3 && (i < 2 && depth <= 2 || i < 1) }, 1))
	wide := xdoc.NewDoc(cp(d.Root, 0, func(depth, i int) bool { return depth == 1 && i == 0 || depth == 2 && i < 13 }, 0))
	var out []*xdoc.Doc
	for _, x := range []*xdoc.Doc{deep, wide} {
		if len(x.Nodes) <= c15SmallDoc {
			out = append(out, x)
		}
	}
	return out
}

type c15Info struct {
	accepted   bool
	outcome    string
	knownRound bool
	// the operation budget ran out on a document too large for the budget to decide
	// termination, and the pruned copies of the document terminated
	inconclusive bool
}

func oracleC15(l *harness.Live) (c15Info, *harness.Failure) {
	var info c15Info
	e, err, pan := harness.Compile(l.Expr, l.NSMap, l.HasNS)
	if pan != nil {
		return info, harness.Failf("an error or an expression", pan.String(), "Compile panicked")
	}
	if err != nil || e == nil {
		return info, nil // not accepted: nothing to evaluate
	}
	info.accepted = true
	run := func(mode string, limit int64) (outcome string, pan *harness.PanicInfo, bad string) {
		b := &xdoc.Budget{Limit: limit}
		defer func() {
			if r := recover(); r != nil {
				pan = classifyPanic(r)
			}
		}()
		nav := l.Doc.Nav(l.Flavour, l.Ctx, b)
		if mode == "select" {
			it := e.Select(nav)
			n := 0
			for it.MoveNext() {
				n++
				if n >= 10000 {
					return "select: capped", nil, ""
				}
			}
			return fmt.Sprintf("select: %d nodes", n), nil, ""
		}
		raw := e.Evaluate(nav)
		switch x := raw.(type) {
		case bool, float64, string:
			return fmt.Sprintf("evaluate: %T", raw), nil, ""
		case *xpath.NodeIterator:
			n := 0
			for x.MoveNext() {
				n++
				if n >= 10000 {
					return "evaluate: capped", nil, ""
				}
			}
			return fmt.Sprintf("evaluate: %d nodes", n), nil, ""
		default:
			return "", nil, fmt.Sprintf("%T", raw)
		}
	}
	for _, mode := range []string{"select", "evaluate"} {
		outcome, pan, bad := run(mode, c15Budget)
		if pan != nil && pan.Budget {
			// confirm with twice the budget before calling it non-termination
			outcome, pan, bad = run(mode, 2*c15Budget)
			if pan != nil && pan.Budget {
				if len(l.Doc.Nodes) <= c15SmallDoc {
					return info, harness.Failf(mode+" terminates", fmt.Sprintf("still running after %d navigator operations on a %d-node document", 2*c15Budget, len(l.Doc.Nodes)), mode+" does not terminate")
				}
				// On a larger document a nested expression can legitimately cost more than the
				// budget (n^k). Non-termination does not go away when the document shrinks, cost
				// does: decide on pruned copies of at most c15SmallDoc nodes.
				for _, small := range prunedDocs(l.Doc) {
					sl := *l
					sl.Doc, sl.Ctx = small, small.Root
					if _, f := oracleC15(&sl); f != nil {
						*l = sl
						return info, f
					}
				}
				info.inconclusive = true
				return info, nil
			}
		}
		if bad == "int" && harness.Excluded("round-int") && strings.Contains(l.Expr, "round") {
			// exactly the known finding KF-round (Evaluate hands out round()'s Go int), and
			// nothing more: any other misbehaviour of an expression using round() is still reported
			info.knownRound = true
			bad = ""
			outcome = mode + ": int (KF-round)"
		}
		if bad != "" {
			return info, harness.Failf("bool, float64, string or *NodeIterator", bad, "Evaluate returned a value of an undocumented type")
		}
		if pan != nil {
			switch {
			case pan.IsRuntime:
				return info, harness.Failf("a value or a deliberate error", pan.String(), mode+" aborted with a Go runtime error")
			case !pan.IsError:
				return info, harness.Failf("a value or a deliberate error", pan.String(), mode+" panicked with a value that is not an error")
			}
			outcome = mode + ": deliberate error"
		}
		info.outcome += outcome + "; "
	}
	return info, nil
}

// classifyPanic mirrors harness.classify for panics recovered here.
func classifyPanic(r interface{}) *harness.PanicInfo {
	return harness.Classify(r)
}

func c15Doc() xgen.DocOpts {
	o := xgen.DefaultDoc()
	o.MaxDepth = 3
	o.MaxFan = 2
	o.ElNames = xgen.ElNames2
	o.Texts = []string{"1", "t", "2.5", ""}
	o.Texts = o.Texts[:3]
	return o
}

func mixesTypes(e xast.Expr) bool {
	kind := func(x xast.Expr) string {
		switch y := x.(type) {
		case *xast.Num:
			return "num"
		case *xast.Str:
			return "str"
		case *xast.Path, *xast.Filter:
			return "nodes"
		case *xast.Call:
			return "call:" + y.Name
		case *xast.Bin:
			return "bin:" + y.Op
		}
		return "other"
	}
	mixed := false
	xast.Walk(e, func(x xast.Expr) {
		if b, ok := x.(*xast.Bin); ok && kind(b.L) != kind(b.R) {
			mixed = true
		}
	})
	return mixed
}

// smallPatternCache installs a two-entry pattern cache (a client may) for the duration of
// a test, so that regex functions go through miss, insert, reset and failed loads all the time.
func smallPatternCache() func() {
	saved := xpath.RegexpCache
	xpath.RegexpCache = xpath.NewLoadingCache(func(key interface{}) (interface{}, error) { return regexp.Compile(key.(string)) }, 2)
	return func() { xpath.RegexpCache = saved }
}

func TestC15Rapid(t *testing.T) {
	defer smallPatternCache()()
	journal := harness.OpenJournal()
	runRapid(t, uC15Rapid, func(rt *rapid.T) {
		o := c15Doc()
		// mostly small documents; sometimes wide (sibling positions of two digits), deep or
		// a chain of 25 levels (tables indexed by depth), many attributes
		shape := "doc:regular"
		if rapid.IntRange(0, 3).Draw(rt, "shaped") == 3 {
			shape = xgen.Shape(rt, &o)
		}
		unicode := rapid.IntRange(0, 5).Draw(rt, "unicode") == 5
		if unicode {
			// names and values outside ASCII: functions that index strings by byte meet multi-byte characters
			o.ElNames = []string{"a", "é"}
			o.Texts = []string{"é", "中文", "1", "aé"}
			o.AtVals = []string{"é", "1", "中"}
		}
		// one case in six: prefixes in the document and in the expression, compiled with a map
		// that binds them - for a navigator with the optional NamespaceURL() method and for one
		// without it (half and half)
		var nsmap map[string]string
		nsFlavour := xdoc.NS
		if !unicode && rapid.IntRange(0, 5).Draw(rt, "nsmode") == 5 {
			o.NS = &xgen.NSOpts{Prefixes: []string{"", "p", "q", "r"}, URIs: []string{"", "u1", "u2"}}
			nsmap = map[string]string{"p": rapid.SampledFrom([]string{"u1", "u2", ""}).Draw(rt, "bind-p"), "q": rapid.SampledFrom([]string{"u1", "u2"}).Draw(rt, "bind-q")}
			if rapid.Bool().Draw(rt, "ns-plain") {
				nsFlavour = xdoc.Plain
			}
		}
		doc := xgen.Doc(rt, o)
		ctx := xgen.Context(rt, doc, 3)
		g := xgen.NewG(rt, doc)
		g.ElNames = o.ElNames
		if nsmap != nil {
			g.Prefixes = []string{"", "p", "q"}
		}
		var text, kind string
		var ast xast.Expr
		if rapid.IntRange(0, 4).Draw(rt, "soup") == 0 {
			text, kind = Soup(rt, 10), "gen:soup"
		} else {
			ast = g.WildExpr(3, xgen.WildOpts{Vars: true, AnyArity: true, NSAxis: true, Regex: true})
			text, kind = xast.Render(ast), "gen:wild"
		}
		l := &harness.Live{Property: "C15", Check: "C15/no-runtime-error", Doc: doc, Ctx: ctx, Expr: text, AST: ast, Flavour: flavourOf(rt)}
		if nsmap != nil {
			l.HasNS, l.NSMap, l.Flavour = true, nsmap, nsFlavour
			shape += "+namespace-map"
		}
		journal.Record(l.Save())
		info, f := oracleC15(l)
		if f != nil {
			harness.Report(rt, uC15Rapid, l, f)
		}
		if info.knownRound {
			uC15Rapid.Exclude("round-int")
		}
		if info.inconclusive {
			uC15Rapid.Skip() // budget ran out on a large document: inconclusive
			return
		}
		labels := []string{kind, shape}
		if !info.accepted {
			labels = append(labels, "rejected-by-compile")
		} else {
			labels = append(labels, "accepted")
			if strings.Contains(info.outcome, "deliberate error") {
				labels = append(labels, "outcome:deliberate-error")
			} else {
				labels = append(labels, "outcome:value")
			}
		}
		nontrivial := info.accepted && (strings.Contains(text, "(") || (ast != nil && mixesTypes(ast)))
		uC15Rapid.Case(harness.Mix(doc.Hash(), uint64(ctx.ID), harness.Hash64(text)), nontrivial, labels, func() interface{} {
			return l.Sample("outcome", info.outcome)
		})
	})
	journal.Close()
}

func TestC15Enum(t *testing.T) {
	defer smallPatternCache()()
	journal := harness.OpenJournal()
	docs := []*xdoc.Doc{xdoc.MustParse("<a x='1'><a>{2}</a><b>{t}</b><!--c--></a>"), xdoc.MustParse("<b/>")}
	argForms := []struct{ name, text string }{
		{"number", "1.5"}, {"string", "'a'"}, {"boolean", "true()"}, {"node-set", "//a"}, {"empty", "//zz"},
		// strings of other lengths and with multi-byte characters: index arithmetic on bytes vs characters
		{"long-string", "'abcabc'"}, {"multibyte-string", "'éx'"}, {"empty-string", "''"},
		// strings that mean something to a regular expression or to a replacement template
		{"group-pattern", "'(a)(b)?'"}, {"dollar-at-end", "'x$'"}, {"dollar-reference", "'$2$'"},
	}
	var exprs []string
	var kinds []string
	for _, f := range xgen.Funcs {
		for ar := 0; ar <= 3; ar++ {
			n := 1
			for i := 0; i < ar; i++ {
				n *= len(argForms)
			}
			for c := 0; c < n; c++ {
				x := c
				var args, names []string
				for i := 0; i < ar; i++ {
					args = append(args, argForms[x%len(argForms)].text)
					names = append(names, argForms[x%len(argForms)].name)
					x /= len(argForms)
				}
				exprs = append(exprs, f.Name+"("+strings.Join(args, ", ")+")")
				kinds = append(kinds, "fn:"+f.Name)
			}
		}
	}
	for _, op := range []string{"or", "and", "=", "!=", "<", "<=", ">", ">=", "+", "-", "*", "div", "mod", "|"} {
		for _, l := range argForms {
			for _, r := range argForms {
				exprs = append(exprs, l.text+" "+op+" "+r.text)
				kinds = append(kinds, "op:"+op)
			}
		}
	}
	for _, a := range argForms {
		exprs = append(exprs, "-"+a.text, "//a["+a.text+"]", "("+a.text+")[1]", a.text+"/a", "//a["+a.text+"][2]")
		kinds = append(kinds, "unary-minus", "as-predicate", "filter", "path-start", "two-predicates")
	}
	// the numeric operators on awkward values
	for _, e := range []string{"1 mod 0", "1 div 0", "0 div 0", "-1 mod 0", "1.5 mod 0.5", "5 mod -2", "1 mod (1 div 0)", "number('x') mod 2", "round(2.5) = 3", "round(-2.5)", "round(1 div 0)", "round(number('x'))", "floor(1 div 0)", "string(1 div 0)", "substring('abc', 1 div 0)", "substring('abc', number('x'), 2)", "substring('abc', -1 div 0, 1 div 0)", "$x", "$x/a", "namespace::a/b", "//a/namespace::*", "string()", "number()", "boolean()", "reverse(1 = 1)", "//a or 1 = 1", "1 = 1", "(1 = 1)[1]", "count(1 = 1)", "sum('a')", "sum(//b)", "a[last()][last()]", "//a[position() = last()][1]/..", "last()", "position()"} {
		exprs = append(exprs, e)
		kinds = append(kinds, "special")
	}
	shard, shards := harness.Shard()
	var total int64
	for i, ex := range exprs {
		if i%shards != shard {
			continue
		}
		for _, d := range docs {
			for _, ctx := range []*xdoc.Node{d.Root, d.Nodes[len(d.Nodes)-1]} {
				l := &harness.Live{Property: "C15", Check: "C15/no-runtime-error", Doc: d, Ctx: ctx, Expr: ex}
				journal.Record(l.Save())
				info, f := oracleC15(l)
				if f != nil {
					harness.Report(t, uC15Enum, l, f)
				}
				if info.knownRound {
					uC15Enum.Exclude("round-int")
				}
				total++
				labels := []string{kinds[i]}
				if info.accepted {
					labels = append(labels, "accepted")
				} else {
					labels = append(labels, "rejected-by-compile")
				}
				uC15Enum.Case(harness.Mix(d.Hash(), uint64(ctx.ID), harness.Hash64(ex)), info.accepted, labels, func() interface{} {
					return l.Sample("outcome", info.outcome)
				})
			}
		}
	}
	journal.Close()
	uC15Enum.SetExhaustive(total)
	uC15Enum.Done(total)
}

// FuzzEval is the native coverage-guided target for C15 (thorough tier).
func FuzzEval(f *testing.F) {
	for _, s := range []string{"//a[@x='1']/b", "count(//a) > 1 and not(b)", "(a | b)[1]", "1 mod 0", "true() = 1", "string()", "$x/a", "round(2.5) = 3", "reverse(//a)", "a/(b, c)", "sum(//a) div count(//b)", "substring(//a, 2, 100)", "concat(1, 'a', //a)", "//a[last()][position() > 1]", "string-join(//a, 1)", "namespace::a/b", "-//a", "translate(//a, 'a', 1)"} {
		f.Add(s, byte(0))
	}
	d := xdoc.MustParse("<a x='1'><a>{2}</a><b>{t}</b><!--c--></a>")
	f.Fuzz(func(t *testing.T, s string, c byte) {
		l := &harness.Live{Property: "C15", Check: "C15/no-runtime-error", Doc: d, Ctx: d.Nodes[int(c)%len(d.Nodes)], Expr: s}
		if _, fail := oracleC15(l); fail != nil {
			if fail.Got == "int" && strings.Contains(s, "round") {
				return // KF-round (known finding): Evaluate hands out round()'s Go int
			}
			t.Fatalf("VIOLATION C15 expr=%q ctx=%d: %s", s, int(c)%len(d.Nodes), fail)
		}
	})
}
