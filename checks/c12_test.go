package checks

import (
	"fmt"
	"testing"

	"github.com/antchfx/xpath"
	"pgregory.net/rapid"

	"verif/internal/harness"
	"verif/internal/xast"
	"verif/internal/xdoc"
	"verif/internal/xgen"
	"verif/internal/xref"
)

// C12 — flat paths: document order, no duplicates; iterator protocol is well-behaved.

const ruleC12 = "rapid (a) flat paths (child/attribute/self steps from one context node, optionally with boolean predicates and positional first predicates on child steps; or a single predicate-free descendant step //n, descendant::n, .//n) x document (fan<=5) x context: the SEQUENCE yielded by Select equals the reference's document-order sequence (no repeats). (b) any node-set expression from the C01/C02/C03/C11 generators: Evaluate returns an iterator with the same sequence as Select; count(e) = its length; reverse(e) = it reversed; after the first false, 1-5 further MoveNext calls return false; after each true, Current() is a node of the document, stable across two calls and equal to the reported node. Non-trivial: (a) sequence length >= 2; (b) length >= 1 (and extra MoveNext calls are always made). Distinct by (document, context, expression)."

var (
	uC12Flat  = harness.NewUnit("C12", "rapid-flat-order", ruleC12)
	uC12Proto = harness.NewUnit("C12", "rapid-iterator-protocol", ruleC12)
)

func init() {
	harness.RegisterOracle("C12/flat-order", func(l *harness.Live) *harness.Failure {
		_, f := oracleC12Flat(l)
		return f
	})
	harness.RegisterOracle("C12/protocol", func(l *harness.Live) *harness.Failure {
		_, f := oracleC12Proto(l)
		return f
	})
}

func oracleC12Flat(l *harness.Live) ([]int, *harness.Failure) {
	want, err := refNodes(l)
	if err != nil {
		return nil, refFailure(err)
	}
	ids, f := engineSelect(l)
	if f != nil {
		return nil, f
	}
	if !harness.EqualInts(ids, want.IDs()) && !(len(ids) == 0 && len(want) == 0) {
		note := "a flat path did not yield its nodes in document order without repeats"
		if harness.EqualInts(harness.SetOf(ids), want.IDs()) {
			if harness.HasDup(ids) {
				note += " (right set, a node repeated)"
			} else {
				note += " (right set, wrong order)"
			}
		}
		return nil, harness.Failf(describe(l.Doc, want.IDs()), describe(l.Doc, ids), note)
	}
	return ids, nil
}

func extraMoves(l *harness.Live) int {
	if v, ok := l.Params["extra_movenext"]; ok {
		switch x := v.(type) {
		case int:
			return x
		case float64:
			return int(x)
		}
	}
	return 2
}

// walkIterator drives one iterator of e (from Select or from Evaluate) through
// the whole protocol: every MoveNext()=true must leave Current() on a node of the
// document, stable across two calls; after the first false, extra further calls
// must all return false.
func walkIterator(e *xpath.Expr, l *harness.Live, useEvaluate bool, extra int, what string) (seq []int, f *harness.Failure) {
	defer func() {
		if r := recover(); r != nil {
			if _, ok := r.(xdoc.BudgetExceeded); ok {
				seq, f = nil, cappedFailure
				return
			}
			seq, f = nil, harness.Failf(what+" completes", fmt.Sprint("panic: ", r), what+" panicked")
		}
	}()
	nav := l.Doc.Nav(l.Flavour, l.Ctx, &xdoc.Budget{Limit: engineBudget})
	var it *xpath.NodeIterator
	if useEvaluate {
		v, ok := e.Evaluate(nav).(*xpath.NodeIterator)
		if !ok {
			return nil, harness.Failf("node iterator", fmt.Sprintf("%T", v), "Evaluate of a node-set expression is not a node iterator")
		}
		it = v
	} else {
		it = e.Select(nav)
	}
	for it.MoveNext() {
		c1 := it.Current()
		n := xdoc.NodeOf(c1)
		if n == nil || xdoc.DocOf(c1) != l.Doc {
			return nil, harness.Failf("Current() on a node of the document", fmt.Sprintf("%T", c1), what+": Current() after MoveNext()=true is not positioned on a document node")
		}
		if n2 := xdoc.NodeOf(it.Current()); n2 != n {
			return nil, harness.Failf(n.Desc(), fmt.Sprint(n2), what+": Current() is not stable between two calls")
		}
		seq = append(seq, n.ID)
		if len(seq) >= harness.MaxResults {
			return nil, cappedFailure
		}
	}
	for i := 0; i < extra; i++ {
		if it.MoveNext() {
			return nil, harness.Failf("MoveNext() stays false once it returned false", fmt.Sprintf("true on extra call %d (now on %v)", i+1, xdoc.NodeOf(it.Current())), what+": iterator restarted or continued after exhaustion")
		}
	}
	return seq, nil
}

func oracleC12Proto(l *harness.Live) (seq []int, f *harness.Failure) {
	e, f := compileLive(l)
	if f != nil {
		return nil, f
	}
	extra := extraMoves(l)
	if seq, f = walkIterator(e, l, false, extra, "Select(e)"); f != nil {
		return nil, f
	}
	evSeq, f := walkIterator(e, l, true, extra, "Evaluate(e)")
	if f != nil {
		return nil, f
	}
	if !harness.EqualInts(evSeq, seq) {
		return nil, harness.Failf(describe(l.Doc, seq), describe(l.Doc, evSeq), "Evaluate's iterator yields a different sequence than Select")
	}
	// count(e) = length of the sequence
	ce := &xast.Call{Name: "count", Args: []xast.Expr{l.AST}}
	cl := *l
	cl.AST, cl.Expr = ce, xast.Render(ce)
	cv, f := engineEval(&cl)
	if f != nil {
		if f != cappedFailure {
			f.Note = "count(e): " + f.Note
		}
		return nil, f
	}
	if cv.Kind != "num" || cv.F != float64(len(seq)) {
		return nil, harness.Failf(fmt.Sprintf("count = %d", len(seq)), cv.String(), "count(e) differs from the length of the sequence e yields")
	}
	// reverse(e): the sequence reversed, under the same iterator protocol, from Select,
	// from Evaluate and from a second Select of the same compiled expression
	re := &xast.Call{Name: "reverse", Args: []xast.Expr{l.AST}}
	rl := *l
	rl.AST, rl.Expr = re, xast.Render(re)
	rexpr, f := compileLive(&rl)
	if f != nil {
		f.Note = "reverse(e): " + f.Note
		return nil, f
	}
	rev := make([]int, len(seq))
	for i, id := range seq {
		rev[len(seq)-1-i] = id
	}
	for _, w := range []struct {
		ev   bool
		what string
	}{{false, "Select(reverse(e))"}, {true, "Evaluate(reverse(e))"}, {false, "second Select(reverse(e))"}} {
		rids, f := walkIterator(rexpr, &rl, w.ev, extra, w.what)
		if f != nil {
			return nil, f
		}
		if !harness.EqualInts(rids, rev) {
			return nil, harness.Failf(describe(l.Doc, rev), describe(l.Doc, rids), w.what+" is not the sequence of e reversed")
		}
	}
	return seq, nil
}

func c12Doc() xgen.DocOpts {
	o := xgen.DefaultDoc()
	o.MaxFan = 5
	return o
}

// flatWithPreds decorates a flat path with the predicates C02/C03 allow.
func flatWithPreds(g *xgen.G, rt *rapid.T, base xref.NodeSet) *xast.Path {
	p := g.FlatPath(base)
	desc := false
	for _, s := range p.Steps {
		if _, ok := s.(xast.DSlash); ok {
			desc = true
		}
		if st, ok := s.(*xast.Step); ok && st.Axis == "descendant" {
			desc = true
		}
	}
	if desc {
		return p // the descendant forms are flat only when predicate-free
	}
	for _, s := range p.Steps {
		st := s.(*xast.Step)
		if rapid.IntRange(0, 9).Draw(rt, "fp") < 3 {
			if st.Axis == "child" && rapid.Bool().Draw(rt, "fpos") {
				st.Preds = append(st.Preds, g.PosPred())
			}
			if rapid.Bool().Draw(rt, "fbool") || len(st.Preds) == 0 {
				st.Preds = append(st.Preds, g.BoolPred(nil, 1))
			}
		}
	}
	return p
}

func TestC12Flat(t *testing.T) {
	runRapid(t, uC12Flat, func(rt *rapid.T) {
		o := c12Doc()
		prefixed := rapid.IntRange(0, 3).Draw(rt, "prefixed") == 0
		if prefixed {
			o.NS = &xgen.NSOpts{Prefixes: []string{"", "p", "p", "q"}, URIs: []string{"", "u"}}
			o.ElNames = []string{"a", "b"}
		}
		shape := xgen.Shape(rt, &o)
		doc := xgen.Doc(rt, o)
		ctx := xgen.Context(rt, doc, 4)
		g := xgen.NewG(rt, doc)
		g.ExtraFuncs = true
		if prefixed {
			g.ElNames = o.ElNames
			g.Prefixes = []string{"", "p", "q"}
		}
		p := flatWithPreds(g, rt, xref.NodeSet{ctx})
		l := &harness.Live{Property: "C12", Check: "C12/flat-order", Doc: doc, Ctx: ctx, AST: p, Expr: renderDrawn(rt, p), Flavour: flavourOf(rt)}
		ids, f := oracleC12Flat(l)
		if f != nil {
			if inconclusive(uC12Flat, f) {
				return
			}
			harness.Report(rt, uC12Flat, l, f)
		}
		labels := append(shapeLabels(p), sizeLabel(len(ids)))
		if prefixed {
			labels = append(labels, "doc:prefixed-names")
		}
		labels = append(labels, shape)
		uC12Flat.Case(harness.Mix(doc.Hash(), uint64(ctx.ID), harness.Hash64(l.Expr)), len(ids) >= 2, labels, func() interface{} {
			return l.Sample("sequence", describe(doc, ids))
		})
	})
}

// anyNodeSetExpr draws a node-set expression from the union of the node-set fragments.
func anyNodeSetExpr(g *xgen.G, rt *rapid.T, ctx *xdoc.Node) xast.Expr {
	switch rapid.IntRange(0, 10).Draw(rt, "nsform") {
	case 9:
		// a positional predicate on the last step of a path over any axis (what it selects is
		// claimed by no property; the relations between Select, Evaluate, count and reverse are)
		p := g.AxisPath(ctx, xgen.PathOpts{MaxSteps: 3, AbsShare: 4, DSlash: 2})
		if st, ok := p.Steps[len(p.Steps)-1].(*xast.Step); ok {
			st.Preds = []xast.Expr{g.PosPred()}
			switch rapid.IntRange(0, 3).Draw(rt, "stacked") {
			case 0:
				st.Preds = []xast.Expr{g.BoolPred(nil, 0), g.PosPred()} // //b[@k][last()]
			case 1:
				st.Preds = append(st.Preds, g.BoolPred(nil, 0))
			}
			if st.Abbr && (st.Axis == "self" || st.Axis == "parent") {
				st.Abbr = false
			}
		}
		return p
	case 10:
		// p/(s1, s2[, s3])
		p := g.AxisPath(ctx, xgen.PathOpts{MaxSteps: 2, AbsShare: 5, DSlash: 3})
		// one time in four a chain p/(..)/(..)/..: every further sequence doubles or trebles what
		// the builder makes of the path, the text grows by a few bytes
		chain := 1
		if rapid.IntRange(0, 3).Draw(rt, "seqchain") == 0 {
			chain = rapid.IntRange(2, 6).Draw(rt, "nseqs")
		}
		for c := 0; c < chain; c++ {
			seq := &xast.SeqStep{}
			n := 2 + rapid.IntRange(0, 1).Draw(rt, "nalts")
			for i := 0; i < n; i++ {
				seq.Alts = append(seq.Alts, g.Step(nil))
			}
			p.Steps = append(p.Steps, seq)
		}
		return p
	case 0, 1, 2:
		return g.AxisPath(ctx, xgen.PathOpts{MaxSteps: 3, AbsShare: 4, DSlash: 2})
	case 3, 4:
		return g.PredExpr(ctx, 1)
	case 5, 6:
		return g.PosExpr(ctx)
	case 7:
		return flatWithPreds(g, rt, xref.NodeSet{ctx})
	default:
		return &xast.Bin{Op: "|", L: g.AxisPath(ctx, xgen.PathOpts{MaxSteps: 2, AbsShare: 4, DSlash: 2}), R: g.AxisPath(ctx, xgen.PathOpts{MaxSteps: 2, AbsShare: 4, DSlash: 2})}
	}
}

func TestC12Protocol(t *testing.T) {
	runRapid(t, uC12Proto, func(rt *rapid.T) {
		doc := xgen.Doc(rt, xgen.DefaultDoc())
		ctx := xgen.Context(rt, doc, 4)
		g := xgen.NewG(rt, doc)
		g.ExtraFuncs = true
		e := anyNodeSetExpr(g, rt, ctx)
		extra := rapid.IntRange(1, 5).Draw(rt, "extra")
		l := &harness.Live{Property: "C12", Check: "C12/protocol", Doc: doc, Ctx: ctx, AST: e, Expr: xast.Render(e), Flavour: flavourOf(rt),
			Params: map[string]interface{}{"extra_movenext": extra}}
		seq, f := oracleC12Proto(l)
		if f != nil {
			if inconclusive(uC12Proto, f) {
				return
			}
			harness.Report(rt, uC12Proto, l, f)
		}
		labels := append(shapeLabels(e), sizeLabel(len(seq)))
		if harness.HasDup(seq) {
			labels = append(labels, "raw:duplicates")
		}
		uC12Proto.Case(harness.Mix(doc.Hash(), uint64(ctx.ID), harness.Hash64(l.Expr), uint64(extra)), len(seq) >= 1, labels, func() interface{} {
			return l.Sample("sequence", describe(doc, seq), "extra_movenext", extra)
		})
	})
}
