//go:build verif

package checks

import (
	"encoding/json"
	"errors"
	"fmt"
	"regexp"
	"strconv"
	"strings"
	"sync"
	"sync/atomic"
	"testing"
	"time"

	"github.com/antchfx/xpath"
	"pgregory.net/rapid"

	"verif/internal/harness"
	"verif/internal/xast"
	"verif/internal/xdoc"
)

// C16 — regex functions match Go regexp; pattern cache is exact, bounded, thread-safe.

const ruleC16 = "rapid regex: (s, p, r) with p from a regex grammar (literals, classes, '.', * + ? {m,n}, capturing groups up to 12 so that $10 vs $1 matters, non-capturing groups, alternation, anchors, (?i)), s over a small alphabet, sometimes with multi-byte characters or with characters a lexer might skip or fold (U+FEFF, U+00A0, U+200B, U+2028, U+0085, U+1F600; also in p and r) (a literal, the string-value of a node, or - for the empty string - the empty node-set), r made of literal characters and $n with 1 <= n <= groups, sometimes directly followed by a digit or a letter; plus constant invalid patterns, plus 'pair' cases: matches() with two resembling patterns (suffix/prefix added, one character changed, upper-cased, or independent) in one expression, each answer belonging to its own pattern, plus 'dynamic' cases: 2-5 items carrying their own subject, pattern, replacement and (precomputed) expected result as attributes, judged by one compiled //i[matches(@s, string(@p))] / //i[replace(@s, string(@p), string(@r)) = @e] / //i[replace(@s, 'first item's pattern', string(@r)) = @f]. Oracle: matches(s,p) = regexp.MustCompile(p).MatchString(s); replace(s,p,r) = ReplaceAllString with every $n read as group n (longest valid group number), cross-checked by a manual expansion from FindAllStringSubmatchIndex; an invalid constant pattern in matches() is a Compile error. rapid cache histories: a cache from NewLoadingCache with capacity 0..5 (one case in six: 9..17 or 31..33, filled first) and a counting, sometimes-failing load function; actions get(key) over a key alphabet larger than the capacity, swapping xpath.RegexpCache for a small custom cache while matches()/replace() are evaluated, and (race build) a block of g goroutines x keys. Invariants after every step: the value returned is the load of exactly the requested key; entries <= capacity when capacity > 0; a cached key is answered without loading and with the stored value; a missing key is loaded exactly once; a failed load is not remembered (the next get loads again); no data race. Non-trivial: regex case with >= 1 group reference or a match; history that crosses the capacity boundary (a reset happened) or contains a failed load followed by a retry; distinct by (s,p,r) / (capacity, history)."

var (
	uC16Regex = harness.NewUnit("C16", "rapid-regex", ruleC16)
	uC16Cache = harness.NewUnit("C16", "rapid-cache-histories", ruleC16)
	uC16Conc  = harness.NewUnit("C16", "rapid-cache-concurrent", ruleC16)
)

func init() {
	harness.RegisterOracle("C16/regex", func(l *harness.Live) *harness.Failure {
		_, f := oracleC16Regex(l)
		return f
	})
	harness.RegisterOracle("C16/dynamic", oracleC16Dynamic)
	harness.RegisterOracle("C16/cache", func(l *harness.Live) *harness.Failure {
		_, f := oracleC16Cache(l)
		return f
	})
	harness.RegisterOracle("C16/cache-concurrent", func(l *harness.Live) *harness.Failure {
		for i := 0; i < 10; i++ {
			if _, f := oracleC16Conc(l); f != nil {
				return f
			}
		}
		return nil
	})
}

// ---------------------------------------------------------------------------
// regex

type rxGen struct {
	rt     *rapid.T
	groups int
}

func (g *rxGen) atom(depth int) string {
	switch rapid.IntRange(0, 11).Draw(g.rt, "atom") {
	case 0, 1, 2:
		return rapid.SampledFrom([]string{"a", "b", "c", "1", "A", " "}).Draw(g.rt, "lit")
	case 3:
		return rapid.SampledFrom([]string{"[ab]", "[^a]", "[a-c]", `\d`, `\w`, `\s`, "[0-9]", `\\`, `\.`}).Draw(g.rt, "class")
	case 4:
		return "."
	case 5, 6, 7:
		if depth > 0 && g.groups < 12 {
			g.groups++
			return "(" + g.alt(depth-1) + ")"
		}
		return "a"
	case 8:
		if depth > 0 {
			return "(?:" + g.alt(depth-1) + ")"
		}
		return "b"
	}
	return rapid.SampledFrom([]string{"a", "b", "ab", "a", "b", "é", "中", "\ufeff", "\u00a0", "\U0001f600"}).Draw(g.rt, "lit2")
}

func (g *rxGen) piece(depth int) string {
	a := g.atom(depth)
	switch rapid.IntRange(0, 9).Draw(g.rt, "quant") {
	case 0:
		return a + "*"
	case 1:
		return a + "+"
	case 2:
		return a + "?"
	case 3:
		return a + rapid.SampledFrom([]string{"{2}", "{1,2}", "{0,1}", "{2,}"}).Draw(g.rt, "brace")
	}
	return a
}

func (g *rxGen) seq(depth int) string {
	n := rapid.IntRange(1, 4).Draw(g.rt, "nseq")
	var sb strings.Builder
	for i := 0; i < n; i++ {
		sb.WriteString(g.piece(depth))
	}
	return sb.String()
}

func (g *rxGen) alt(depth int) string {
	s := g.seq(depth)
	if rapid.IntRange(0, 4).Draw(g.rt, "alt") == 0 {
		s += "|" + g.seq(depth)
	}
	return s
}

func (g *rxGen) pattern() string {
	p := g.alt(3)
	// make group-rich patterns common: ten or more groups matter for $10 vs $1
	if rapid.IntRange(0, 5).Draw(g.rt, "manygroups") == 0 {
		for g.groups < 11 {
			g.groups++
			p += "(" + rapid.SampledFrom([]string{"a", "b", "c?", "[ab]", "1*"}).Draw(g.rt, "g") + ")"
		}
	}
	if rapid.IntRange(0, 5).Draw(g.rt, "anchorL") == 0 {
		p = "^" + p
	}
	if rapid.IntRange(0, 5).Draw(g.rt, "anchorR") == 0 {
		p += "$"
	}
	if rapid.IntRange(0, 7).Draw(g.rt, "flag") == 0 {
		p = "(?i)" + p
	}
	if rapid.IntRange(0, 9).Draw(g.rt, "longpattern") == 9 {
		// longer than 128 / 256 bytes, with an alternative at the very end that matters
		n := rapid.SampledFrom([]int{26, 52}).Draw(g.rt, "padding")
		p = "(?:" + p + ")" + strings.Repeat("|a{9}", n) + "|" + rapid.SampledFrom([]string{"A", "1", " ", "c"}).Draw(g.rt, "tail")
	}
	return p
}

// expandTemplate turns r (literals and $n) into Go's template syntax with every
// reference braced; the group number is the longest digit prefix that names an
// existing group.
func expandTemplate(r string, groups int) (tmpl string, refs int) {
	var sb strings.Builder
	for i := 0; i < len(r); {
		if r[i] == '$' {
			j := i + 1
			for j < len(r) && r[j] >= '0' && r[j] <= '9' {
				j++
			}
			best := 0
			for k := j; k > i+1; k-- {
				if n, _ := strconv.Atoi(r[i+1 : k]); n >= 1 && n <= groups {
					best = k
					break
				}
			}
			if best > 0 {
				sb.WriteString("${" + r[i+1:best] + "}")
				refs++
				i = best
				continue
			}
		}
		sb.WriteByte(r[i])
		i++
	}
	return sb.String(), refs
}

// manualReplace expands the template from the submatch indexes, without ReplaceAllString.
func manualReplace(re *regexp.Regexp, s, tmpl string) string {
	var out []byte
	last := 0
	for _, m := range re.FindAllStringSubmatchIndex(s, -1) {
		out = append(out, s[last:m[0]]...)
		out = re.ExpandString(out, tmpl, s, m)
		last = m[1]
	}
	out = append(out, s[last:]...)
	return string(out)
}

type c16Info struct {
	nontrivial bool
	labels     []string
	want       string
}

func strParam(l *harness.Live, k string) string {
	s, _ := l.Params[k].(string)
	return s
}

func oracleC16Regex(l *harness.Live) (c16Info, *harness.Failure) {
	var info c16Info
	s, p, r, mode := strParam(l, "s"), strParam(l, "p"), strParam(l, "r"), strParam(l, "mode")
	re, err := regexp.Compile(p)
	if mode == "invalid" {
		if err == nil {
			return info, nil // the generator meant it to be invalid; nothing to assert
		}
		e, cerr, pan := harness.Compile(l.Expr, nil, false)
		if pan != nil {
			return info, harness.Failf("compile error", pan.String(), "Compile panicked on an invalid constant pattern")
		}
		if cerr == nil || e != nil {
			return info, harness.Failf("compile error for pattern "+strconv.Quote(p), "accepted", "a constant pattern that does not compile must be rejected by Compile")
		}
		info.nontrivial = true
		info.labels = []string{"invalid-pattern-rejected"}
		return info, nil
	}
	if err != nil {
		return info, harness.Failf("valid pattern", err.Error(), "generator produced an invalid pattern")
	}
	v, f := engineEval(l)
	if f != nil {
		return info, f
	}
	if mode == "pair" {
		// two patterns that resemble each other in one expression: each answer belongs to its own pattern
		p2 := strParam(l, "p2")
		re2, err2 := regexp.Compile(p2)
		if err2 != nil {
			return info, harness.Failf("valid pattern", err2.Error(), "generator produced an invalid second pattern")
		}
		want := fmt.Sprintf("%v|%v|%v", re.MatchString(s), re2.MatchString(s), re.MatchString(s))
		info.want = want
		if v.Kind != "str" || v.S != want {
			return info, harness.Failf(strconv.Quote(want), v.String(), "matches(%q, p) for p = %q, %q, %q in one expression", s, p, p2, p)
		}
		info.nontrivial = re.MatchString(s) != re2.MatchString(s)
		info.labels = []string{"pair", fmt.Sprintf("differ:%v", info.nontrivial)}
		return info, nil
	}
	if mode == "matches" {
		want := re.MatchString(s)
		info.want = fmt.Sprint(want)
		if v.Kind != "bool" || v.B != want {
			return info, harness.Failf(fmt.Sprintf("bool(%v)", want), v.String(), "matches(%q, %q) differs from Go's regexp", s, p)
		}
		info.nontrivial = want
		info.labels = []string{"matches", fmt.Sprintf("match:%v", want)}
		return info, nil
	}
	tmpl, refs := expandTemplate(r, re.NumSubexp())
	want := re.ReplaceAllString(s, tmpl)
	if manual := manualReplace(re, s, tmpl); manual != want {
		return info, harness.Failf(want, manual, "oracle inconsistency: ReplaceAllString and the manual expansion disagree")
	}
	info.want = want
	if v.Kind != "str" || v.S != want {
		return info, harness.Failf(strconv.Quote(want), v.String(), "replace(%q, %q, %q) differs from ReplaceAllString with $n read as group n (template %q)", s, p, r, tmpl)
	}
	info.nontrivial = refs > 0 && re.MatchString(s)
	info.labels = []string{"replace", fmt.Sprintf("refs:%d", min(refs, 3))}
	if re.NumSubexp() >= 10 {
		info.labels = append(info.labels, "groups>=10")
	}
	return info, nil
}

var invalidPatterns = []string{"(", "a(b", "[a", "a{2,1}", "*a", "(?P<n>a", `\`, "a**", "(?z)a", "[b-a]"}

func TestC16Regex(t *testing.T) {
	runRapid(t, uC16Regex, func(rt *rapid.T) {
		g := &rxGen{rt: rt}
		mode := rapid.SampledFrom([]string{"matches", "matches", "replace", "replace", "replace", "invalid", "pair", "dynamic"}).Draw(rt, "mode")
		if mode == "dynamic" {
			c16Dynamic(rt)
			return
		}
		p := g.pattern()
		if mode == "invalid" {
			p = rapid.SampledFrom(invalidPatterns).Draw(rt, "badpat")
		}
		alphabet := []rune("aabbc1A ")
		switch rapid.IntRange(0, 5).Draw(rt, "multibyte") {
		case 5:
			alphabet = []rune("aabé中c1A ")
		case 4:
			alphabet = []rune("aab\\.c1 ") // a backslash is an ordinary character of an XPath literal, also as its last one
		case 3:
			// characters a lexer might think it may skip or fold: zero-width no-break space (the
			// byte order mark), no-break space, zero-width space, line separator, next line, and
			// one outside the basic plane - inside a literal each is just a character
			alphabet = []rune("ab\ufeff\u00a0\u200b\u2028\u0085\U0001f600")
		}
		s := rapid.StringOfN(rapid.SampledFrom(alphabet), 0, 8, -1).Draw(rt, "s")
		r := ""
		if mode == "replace" {
			n := rapid.IntRange(0, 4).Draw(rt, "nrep")
			for i := 0; i < n; i++ {
				switch rapid.IntRange(0, 3).Draw(rt, "rkind") {
				case 0:
					r += rapid.SampledFrom([]string{"x", "-", "[", "]", " ", "7", "\\", "\ufeff", "\u00a0"}).Draw(rt, "rlit")
				default:
					k := 1
					if g.groups > 0 {
						k = rapid.IntRange(1, g.groups).Draw(rt, "gref")
					}
					r += "$" + strconv.Itoa(k)
					switch rapid.IntRange(0, 3).Draw(rt, "follow") {
					case 0:
						r += rapid.SampledFrom([]string{"0", "1", "2"}).Draw(rt, "fdigit")
					case 1:
						r += rapid.SampledFrom([]string{"a", "x", "_"}).Draw(rt, "fletter")
					}
				}
			}
		}
		doc := xdoc.MustParse("<a/>")
		var sArg xast.Expr = &xast.Str{S: s}
		if s != "" && rapid.Bool().Draw(rt, "fromdoc") {
			root := &xdoc.Node{Kind: xpath.RootNode, Kids: []*xdoc.Node{{Kind: xpath.ElementNode, Local: "a", Kids: []*xdoc.Node{{Kind: xpath.TextNode, Value: s}}}}}
			doc = xdoc.NewDoc(root)
			sArg = &xast.Path{Abs: true, Steps: []interface{}{&xast.Step{Axis: "child", Test: xast.NodeTest{Kind: "name", Local: "a"}, Abbr: true}}}
		} else if s == "" && rapid.Bool().Draw(rt, "emptyset") {
			// the empty node-set: its string-value is the empty string
			sArg = &xast.Path{Abs: true, Steps: []interface{}{&xast.Step{Axis: "child", Test: xast.NodeTest{Kind: "name", Local: "zzz"}, Abbr: true}}}
		}
		var e xast.Expr
		p2 := ""
		if mode == "pair" {
			switch rapid.IntRange(0, 5).Draw(rt, "p2kind") {
			case 0:
				p2 = p + rapid.SampledFrom([]string{"a", "b", "$", "?"}).Draw(rt, "p2suffix")
			case 1:
				p2 = rapid.SampledFrom([]string{"a", "^", "b"}).Draw(rt, "p2prefix") + p
			case 2:
				// same length, one character changed
				b := []byte(p)
				for i := len(b) - 1; i >= 0; i-- {
					if b[i] == 'a' || b[i] == 'b' || b[i] == 'c' {
						b[i] = 'a' + (b[i]-'a'+1)%3
						break
					}
				}
				p2 = string(b)
			case 3:
				p2 = strings.ToUpper(p)
			default:
				p2 = (&rxGen{rt: rt}).pattern()
			}
			if _, err := regexp.Compile(p2); err != nil || p2 == p {
				p2 = p + "b"
			}
			m := func(pat string) xast.Expr {
				return &xast.Call{Name: "string", Args: []xast.Expr{&xast.Call{Name: "matches", Args: []xast.Expr{sArg, &xast.Str{S: pat}}}}}
			}
			e = &xast.Call{Name: "concat", Args: []xast.Expr{m(p), &xast.Str{S: "|"}, m(p2), &xast.Str{S: "|"}, m(p)}}
		} else if mode == "replace" {
			e = &xast.Call{Name: "replace", Args: []xast.Expr{sArg, &xast.Str{S: p}, &xast.Str{S: r}}}
		} else {
			e = &xast.Call{Name: "matches", Args: []xast.Expr{sArg, &xast.Str{S: p}}}
		}
		if strings.Contains(p, "'") || strings.Contains(s, "'") || strings.Contains(r, "'") || strings.Contains(p2, "'") {
			return
		}
		l := &harness.Live{Property: "C16", Check: "C16/regex", Doc: doc, Ctx: doc.Root, AST: e, Expr: xast.Render(e),
			Params: map[string]interface{}{"s": s, "p": p, "r": r, "mode": mode, "p2": p2}}
		info, f := oracleC16Regex(l)
		if f != nil {
			harness.Report(rt, uC16Regex, l, f)
		}
		uC16Regex.Case(harness.Hash64(s, p, r, mode, p2), info.nontrivial, info.labels, func() interface{} {
			return map[string]interface{}{"expr": l.Expr, "expected": info.want}
		})
	})
}

// c16Dynamic: patterns and replacements that are not constants but come from the
// document and differ from node to node, inside ONE compiled expression:
// //i[matches(@s, string(@p))] selects exactly the items whose own pattern matches
// their own subject, //i[replace(@s, string(@p), string(@r)) = @e] (e precomputed
// with Go's regexp) selects every item. Whatever an implementation remembers from
// one evaluation (a compiled pattern, an expanded template) must not leak into the next.
func c16Dynamic(rt *rapid.T) {
	n := rapid.IntRange(2, 5).Draw(rt, "items")
	root := &xdoc.Node{Kind: xpath.RootNode}
	r := &xdoc.Node{Kind: xpath.ElementNode, Local: "r"}
	root.Kids = []*xdoc.Node{r}
	type item struct{ s, p, r, e string }
	var items []item
	var wantMatch []int
	distinct := map[string]bool{}
	for i := 0; i < n; i++ {
		g := &rxGen{rt: rt}
		p := g.pattern()
		if i > 0 && rapid.IntRange(0, 3).Draw(rt, "samepat") == 0 {
			p = items[i-1].p // the same pattern twice in a row is a case of its own
		}
		re, err := regexp.Compile(p)
		if err != nil || strings.ContainsAny(p, "'\"") {
			rt.Skip("pattern not usable")
		}
		s := rapid.StringOfN(rapid.SampledFrom([]rune("aabbc1A ")), 0, 6, -1).Draw(rt, "s")
		tmplSrc := rapid.SampledFrom([]string{"x", "$1", "$1x", "[$1]", "$2$1", "$10", "$1$1", ""}).Draw(rt, "r")
		tmpl, _ := expandTemplate(tmplSrc, re.NumSubexp())
		it := item{s, p, tmplSrc, re.ReplaceAllString(s, tmpl)}
		items = append(items, it)
		distinct[p] = true
		el := &xdoc.Node{Kind: xpath.ElementNode, Local: "i"}
		for _, kv := range [][2]string{{"s", it.s}, {"p", it.p}, {"r", it.r}, {"e", it.e}} {
			el.Attrs = append(el.Attrs, &xdoc.Node{Kind: xpath.AttributeNode, Local: kv[0], Value: kv[1]})
		}
		// the subject once more as the second <t> child (the first carries no @k and another text):
		// t[2], t[@k], t[@k][1] and t[last()] all address it
		el.Kids = []*xdoc.Node{
			{Kind: xpath.ElementNode, Local: "t", Kids: []*xdoc.Node{{Kind: xpath.TextNode, Value: "zzzz"}}},
			{Kind: xpath.ElementNode, Local: "t", Attrs: []*xdoc.Node{{Kind: xpath.AttributeNode, Local: "k", Value: "1"}}},
		}
		if it.s != "" {
			el.Kids[1].Kids = []*xdoc.Node{{Kind: xpath.TextNode, Value: it.s}}
		}
		r.Kids = append(r.Kids, el)
	}
	// @f: what the item's subject and replacement give under the FIRST item's pattern - for the
	// expression that holds that pattern as a literal and takes only the replacement from each item
	re0 := regexp.MustCompile(items[0].p)
	for i, el := range r.Kids {
		tmpl, _ := expandTemplate(items[i].r, re0.NumSubexp())
		el.Attrs = append(el.Attrs, &xdoc.Node{Kind: xpath.AttributeNode, Local: "f", Value: re0.ReplaceAllString(items[i].s, tmpl)})
	}
	doc := xdoc.NewDoc(root)
	var all, emptyMatchAttrs []int
	for i, el := range r.Kids {
		all = append(all, el.ID)
		if regexp.MustCompile(items[i].p).MatchString(items[i].s) {
			wantMatch = append(wantMatch, el.ID)
		}
		if regexp.MustCompile(items[i].p).MatchString("") {
			emptyMatchAttrs = append(emptyMatchAttrs, el.Attrs[0].ID) // the @s attribute of this item
		}
	}
	for _, c := range []struct {
		expr string
		want []int
	}{
		{"//i[matches(@s, string(@p))]", wantMatch},
		{"//i[replace(@s, string(@p), string(@r)) = @e]", all},
		{"//i[matches(string(@s), concat(@p, ''))][replace(string(@s), concat(@p, ''), concat(@r, '')) = @e]", wantMatch},
		// the subject as a path with predicates of its own (the argument query keeps position tables)
		{"//i[matches(t[2], string(@p))]", wantMatch},
		{"//i[matches(t[@k][1], string(@p))]", wantMatch},
		{"//i[replace(t[last()], string(@p), string(@r)) = @e]", all},
		{"//i[replace(t[@k][1], string(@p), string(@r)) = @e][matches(t[@k], string(@p))]", wantMatch},
		// the candidates are ATTRIBUTES: an attribute has no attributes, the subject @p is the
		// empty node-set, i.e. the empty string, whatever attributes stand next to the candidate
		// a literal pattern, the replacement from each item: nothing prepared "once, because the
		// pattern is constant" may depend on the first item
		{"//i[replace(@s, '" + items[0].p + "', string(@r)) = @f]", all},
		{"//i/@s[matches(@p, string(../@p))]", emptyMatchAttrs},
		{"//i/@s[matches(@*, string(../@p))]", emptyMatchAttrs},
	} {
		l := &harness.Live{Property: "C16", Check: "C16/dynamic", Doc: doc, Ctx: doc.Root, Expr: c.expr, Params: map[string]interface{}{"want": c.want}}
		if f := oracleC16Dynamic(l); f != nil {
			harness.Report(rt, uC16Regex, l, f)
		}
	}
	uC16Regex.Case(harness.Mix(doc.Hash(), 16), len(distinct) >= 2, []string{"dynamic", fmt.Sprintf("patterns:%d", len(distinct))}, func() interface{} {
		return map[string]interface{}{"doc": doc.String(), "expr": "//i[matches(@s, string(@p))]", "expected": fmt.Sprint(wantMatch)}
	})
}

func oracleC16Dynamic(l *harness.Live) *harness.Failure {
	want := intsParam(l, "want")
	ids, f := engineSelect(l)
	if f != nil {
		return f
	}
	got := harness.SetOf(ids)
	if want == nil {
		want = []int{}
	}
	if !harness.EqualInts(got, want) {
		return harness.Failf(describe(l.Doc, want), describe(l.Doc, got), "patterns/replacements taken from each item: every item must be judged by its own pattern (expected set computed with Go's regexp)")
	}
	return nil
}

// ---------------------------------------------------------------------------
// cache histories

type cacheStep struct {
	Op   string `json:"op"`   // get | swap-eval
	Key  string `json:"key"`  // get: the key
	Fail bool   `json:"fail"` // get: the load function fails for this call
	Pat  string `json:"pat"`  // swap-eval: pattern
	S    string `json:"s"`    // swap-eval: subject
}

func stepsOf(l *harness.Live) (cap int, steps []cacheStep) {
	switch c := l.Params["cap"].(type) {
	case int:
		cap = c
	case float64:
		cap = int(c)
	}
	b, _ := json.Marshal(l.Params["steps"])
	_ = json.Unmarshal(b, &steps)
	return
}

func oracleC16Cache(l *harness.Live) (c16Info, *harness.Failure) {
	var info c16Info
	capacity, steps := stepsOf(l)
	var loads int64
	failNext := false
	load := func(key interface{}) (interface{}, error) {
		n := atomic.AddInt64(&loads, 1)
		if failNext {
			return nil, errors.New("load failed")
		}
		return fmt.Sprintf("v:%v:%d", key, n), nil
	}
	c := xpath.NewLoadingCache(load, capacity)
	stored := map[string]string{} // what the cache returned last for a key while it stayed cached
	resets := 0
	failedThenRetried := false
	lastFailed := map[string]bool{}
	// a second, regexp-loading cache swapped in for RegexpCache during swap-eval steps
	var reLoads int64
	custom := xpath.NewLoadingCache(func(key interface{}) (interface{}, error) {
		atomic.AddInt64(&reLoads, 1)
		return regexp.Compile(key.(string))
	}, max(capacity, 1))
	for i, st := range steps {
		switch st.Op {
		case "get":
			had := xpath.VerifCacheHas(c, st.Key)
			before := atomic.LoadInt64(&loads)
			failNext = st.Fail
			v, err := xpath.VerifCacheGet(c, st.Key)
			failNext = false
			called := atomic.LoadInt64(&loads) - before
			switch {
			case had:
				if called != 0 {
					return info, harness.Failf("no load for a cached key", fmt.Sprintf("%d load call(s)", called), "step %d get(%s): a cached key was loaded again", i+1, st.Key)
				}
				if err != nil || v != stored[st.Key] {
					return info, harness.Failf(stored[st.Key], fmt.Sprintf("%v, %v", v, err), "step %d get(%s): a cached key did not return the stored value", i+1, st.Key)
				}
			default:
				if called != 1 {
					return info, harness.Failf("exactly one load", fmt.Sprintf("%d load call(s)", called), "step %d get(%s): a missing key must be loaded exactly once", i+1, st.Key)
				}
				if st.Fail {
					if err == nil {
						return info, harness.Failf("the load error", fmt.Sprint(v), "step %d get(%s): the load failed but get returned a value", i+1, st.Key)
					}
					if xpath.VerifCacheHas(c, st.Key) {
						return info, harness.Failf("key absent after a failed load", "key cached", "step %d get(%s): a failed load was remembered", i+1, st.Key)
					}
					lastFailed[st.Key] = true
				} else {
					s, _ := v.(string)
					if err != nil || !strings.HasPrefix(s, "v:"+st.Key+":") {
						return info, harness.Failf("the load of key "+st.Key, fmt.Sprintf("%v, %v", v, err), "step %d get(%s): wrong value returned", i+1, st.Key)
					}
					if lastFailed[st.Key] {
						failedThenRetried = true
						lastFailed[st.Key] = false
					}
					stored[st.Key] = s
				}
			}
			if n := xpath.VerifCacheLen(c); capacity > 0 && n > capacity {
				return info, harness.Failf(fmt.Sprintf("at most %d entries", capacity), fmt.Sprintf("%d entries", n), "step %d get(%s): the cache holds more entries than its capacity", i+1, st.Key)
			}
			if r := xpath.VerifCacheResets(c); r != resets {
				resets = r
				// after a reset only what is still cached keeps its stored value
				for k := range stored {
					if !xpath.VerifCacheHas(c, k) {
						delete(stored, k)
					}
				}
			}
		case "swap-eval":
			// a client swaps in its own cache; matches() must keep answering exactly
			re, err := regexp.Compile(st.Pat)
			if err != nil {
				continue
			}
			saved := xpath.RegexpCache
			xpath.RegexpCache = custom
			expr := fmt.Sprintf("matches('%s', '%s')", st.S, st.Pat)
			d := xdoc.MustParse("<a/>")
			ll := &harness.Live{Doc: d, Ctx: d.Root, Expr: expr}
			v, f := engineEval(ll)
			xpath.RegexpCache = saved
			if f != nil {
				return info, f
			}
			if v.Kind != "bool" || v.B != re.MatchString(st.S) {
				return info, harness.Failf(fmt.Sprint(re.MatchString(st.S)), v.String(), "step %d: %s through a swapped-in cache of capacity %d", i+1, expr, max(capacity, 1))
			}
			if n := xpath.VerifCacheLen(custom); n > max(capacity, 1) {
				return info, harness.Failf(fmt.Sprintf("at most %d entries", max(capacity, 1)), fmt.Sprintf("%d entries", n), "step %d: the swapped-in cache exceeds its capacity", i+1)
			}
			info.labels = append(info.labels, "swap-eval")
		}
	}
	if resets > 0 {
		info.labels = append(info.labels, "reset-happened")
	}
	if failedThenRetried {
		info.labels = append(info.labels, "failed-then-retried")
	}
	info.labels = append(info.labels, fmt.Sprintf("cap:%d", capacity))
	info.nontrivial = resets > 0 || failedThenRetried
	return info, nil
}

var cacheKeys = []string{"a", "b", "c", "d", "e", "f", "g", "h"}

func TestC16Cache(t *testing.T) {
	runRapid(t, uC16Cache, func(rt *rapid.T) {
		capacity := rapid.IntRange(0, 5).Draw(rt, "cap")
		n := rapid.IntRange(2, 24).Draw(rt, "nsteps")
		keys := cacheKeys
		if rapid.IntRange(0, 5).Draw(rt, "bigcap") == 5 {
			// capacities beyond the single digits, with a key alphabet and a history long enough to
			// fill them: 9..17, 31..33 (a capacity is a number the client chose, not a hint)
			capacity = rapid.SampledFrom([]int{9, 10, 12, 15, 16, 17, 31, 32, 33}).Draw(rt, "cap-big")
			keys = nil
			for i := 0; i < capacity+6; i++ {
				keys = append(keys, fmt.Sprintf("k%02d", i))
			}
			n = rapid.IntRange(capacity+2, 2*capacity+12).Draw(rt, "nsteps-big")
		}
		steps := make([]cacheStep, n)
		for i := range steps {
			if rapid.IntRange(0, 9).Draw(rt, "kind") == 0 {
				steps[i] = cacheStep{Op: "swap-eval", Pat: rapid.SampledFrom([]string{"a", "b+", "^c$", "[ab]", "a|b", "(a)(b)", "c?"}).Draw(rt, "pat"), S: rapid.SampledFrom([]string{"a", "ab", "c", "", "bb"}).Draw(rt, "subj")}
				continue
			}
			steps[i] = cacheStep{Op: "get", Key: rapid.SampledFrom(keys).Draw(rt, "key"), Fail: rapid.IntRange(0, 5).Draw(rt, "fail") == 0}
			if capacity > 5 && i < capacity+1 {
				steps[i].Key, steps[i].Fail = keys[i], false // fill the cache first
			}
		}
		l := &harness.Live{Property: "C16", Check: "C16/cache", Params: map[string]interface{}{"cap": capacity, "steps": steps}}
		info, f := oracleC16Cache(l)
		if f != nil {
			harness.Report(rt, uC16Cache, l, f)
		}
		uC16Cache.Case(harness.Hash64(fmt.Sprint(capacity, steps)), info.nontrivial, info.labels, func() interface{} {
			return map[string]interface{}{"capacity": capacity, "steps": steps}
		})
	})
}

// ---------------------------------------------------------------------------
// concurrent block (race build)

func oracleC16Conc(l *harness.Live) (c16Info, *harness.Failure) {
	var info c16Info
	capacity, _ := stepsOf(l)
	var plan [][]string
	b, _ := json.Marshal(l.Params["plan"])
	_ = json.Unmarshal(b, &plan)
	var loads int64
	c := xpath.NewLoadingCache(func(key interface{}) (interface{}, error) {
		n := atomic.AddInt64(&loads, 1)
		if k := key.(string); strings.HasPrefix(k, "bad") && n%2 == 0 {
			return nil, errors.New("load failed")
		}
		return "v:" + key.(string), nil
	}, capacity)
	before := raceLogSize()
	errs := make([]string, len(plan))
	var over int64
	var wg sync.WaitGroup
	start := make(chan struct{})
	for i := range plan {
		wg.Add(1)
		go func(i int) {
			defer wg.Done()
			defer func() {
				if r := recover(); r != nil {
					errs[i] = fmt.Sprint("panic: ", r)
				}
			}()
			<-start
			for rep := 0; rep < 8; rep++ {
				for _, k := range plan[i] {
					v, err := xpath.VerifCacheGet(c, k)
					if err == nil && v != "v:"+k {
						errs[i] = fmt.Sprintf("get(%s) returned %v", k, v)
						return
					}
					if err != nil && !strings.HasPrefix(k, "bad") {
						errs[i] = fmt.Sprintf("get(%s) failed: %v", k, err)
						return
					}
					if n := xpath.VerifCacheLen(c); capacity > 0 && n > capacity {
						atomic.StoreInt64(&over, int64(n))
					}
				}
			}
		}(i)
	}
	// regex functions through the package-level cache at the same time
	wg.Add(1)
	go func() {
		defer wg.Done()
		defer func() { recover() }()
		<-start
		d := xdoc.MustParse("<a>{ab}</a>")
		for _, p := range []string{"a", "b+", "(a)(b)", "^ab$"} {
			if e, err := xpath.Compile(fmt.Sprintf("matches(/a, '%s') and replace('ab', '%s', 'x') != ''", p, p)); err == nil {
				e.Evaluate(d.Nav(xdoc.NS, d.Root, nil))
			}
		}
	}()
	close(start)
	wg.Wait()
	if after := raceLogSize(); after > before {
		return info, harness.Failf("no data race", "race detector report: "+raceLogTail(), "data race in the loading cache under %d goroutines", len(plan))
	}
	for i, e := range errs {
		if e != "" {
			return info, harness.Failf("every get returns the load of its key", e, "goroutine %d", i)
		}
	}
	if over > 0 {
		return info, harness.Failf(fmt.Sprintf("at most %d entries", capacity), fmt.Sprintf("%d entries observed", over), "the cache exceeded its capacity under concurrent use")
	}
	info.nontrivial = len(plan) >= 2
	info.labels = []string{fmt.Sprintf("goroutines:%d", len(plan)), fmt.Sprintf("cap:%d", capacity)}
	return info, nil
}

func TestC16Concurrent(t *testing.T) {
	journal := harness.OpenJournal()
	runRapid(t, uC16Conc, func(rt *rapid.T) {
		capacity := rapid.IntRange(0, 4).Draw(rt, "cap")
		ng := rapid.IntRange(2, 8).Draw(rt, "goroutines")
		keys := append(append([]string{}, cacheKeys...), "bad1", "bad2")
		plan := make([][]string, ng)
		for i := range plan {
			plan[i] = rapid.SliceOfN(rapid.SampledFrom(keys), 1, 8).Draw(rt, "keys")
		}
		l := &harness.Live{Property: "C16", Check: "C16/cache-concurrent", Params: map[string]interface{}{"cap": capacity, "plan": plan}}
		journal.Record(l.Save())
		info, f := oracleC16Conc(l)
		if f != nil {
			harness.Report(rt, uC16Conc, l, f)
		}
		uC16Conc.Case(harness.Hash64(fmt.Sprint(capacity, plan)), info.nontrivial, info.labels, func() interface{} {
			return map[string]interface{}{"capacity": capacity, "plan": plan}
		})
	})
	journal.Close()
}

// ---------------------------------------------------------------------------
// cache with a harness-owned schedule: the load function is the synchronisation point

var uC16Sched = harness.NewUnit("C16", "rapid-cache-scheduled", ruleC16+" Fourth unit (harness-owned schedule): g goroutines call get(key_i) on a cache of capacity 1..3 that already holds r resident keys; every load blocks until the harness releases it, so all of them are inside their miss window at the same time; the harness then releases the loads in a drawn order, waiting for each get to return before the next release (or releasing all at once). Invariants: every get returns the load of its key, entries <= capacity after every completed get, a key that is present is answered with the stored value. Non-trivial: >= 2 goroutines miss at the same time.")

func init() {
	harness.RegisterOracle("C16/cache-scheduled", func(l *harness.Live) *harness.Failure {
		_, f := oracleC16Sched(l)
		return f
	})
}

func oracleC16Sched(l *harness.Live) (nontrivial bool, f *harness.Failure) {
	capacity, _ := stepsOf(l)
	var keys, resident []string
	b, _ := json.Marshal(l.Params["keys"])
	_ = json.Unmarshal(b, &keys)
	b, _ = json.Marshal(l.Params["resident"])
	_ = json.Unmarshal(b, &resident)
	order := intsParam(l, "order")
	allAtOnce, _ := l.Params["all_at_once"].(bool)

	var mu sync.Mutex
	gates := map[string]chan struct{}{}
	entered := make(chan string, 64)
	blocking := false
	c := xpath.NewLoadingCache(func(key interface{}) (interface{}, error) {
		k := key.(string)
		mu.Lock()
		blk := blocking
		g, ok := gates[k]
		mu.Unlock()
		if blk && ok {
			entered <- k
			<-g
		}
		return "v:" + k, nil
	}, capacity)
	for _, k := range resident {
		if _, err := xpath.VerifCacheGet(c, k); err != nil {
			return false, harness.Failf("resident key loads", err.Error(), "setup")
		}
	}
	mu.Lock()
	blocking = true
	for i, k := range keys {
		gates[fmt.Sprintf("%s#%d", k, i)] = make(chan struct{})
		gates[k] = gates[fmt.Sprintf("%s#%d", k, i)]
	}
	mu.Unlock()
	// distinct keys only, so that one gate belongs to one goroutine
	type res struct {
		i   int
		v   interface{}
		err error
	}
	results := make(chan res, len(keys))
	for i, k := range keys {
		go func(i int, k string) {
			defer func() {
				if r := recover(); r != nil {
					results <- res{i, nil, fmt.Errorf("panic: %v", r)}
				}
			}()
			v, err := xpath.VerifCacheGet(c, k)
			results <- res{i, v, err}
		}(i, k)
	}
	// The harness is an event loop over "a get entered its load" and "a get returned".
	// It first lets the gets settle: until every one of them is inside its load (miss) or
	// has returned (hit), or - for an implementation that serialises loads, which the
	// property allows - until nothing has moved for a moment. The moment only decides how
	// many loads overlap (what is explored), never the verdict.
	inLoad := map[string]bool{}
	finished := map[int]res{}
	check := func(r res) *harness.Failure {
		if r.err != nil || r.v != "v:"+keys[r.i] {
			return harness.Failf("v:"+keys[r.i], fmt.Sprintf("%v, %v", r.v, r.err), "get(%s) returned the wrong value", keys[r.i])
		}
		// the size can only be read when the cache's lock is free; an implementation that
		// keeps it while a load is held back by the harness is allowed to - then the size is
		// looked at again later and in any case at the end of the schedule
		sz := make(chan int, 1)
		go func() { sz <- xpath.VerifCacheLen(c) }()
		select {
		case n := <-sz:
			if capacity > 0 && n > capacity {
				return harness.Failf(fmt.Sprintf("at most %d entries", capacity), fmt.Sprintf("%d entries", n), "after get(%s) completed with %d loads released in the miss window", keys[r.i], len(inLoad))
			}
		case <-time.After(20 * time.Millisecond):
		}
		return nil
	}
	waiting := func() int { // gets held inside their load
		n := 0
		for _, v := range inLoad {
			if v {
				n++
			}
		}
		return n
	}
	// event waits for one event; quiet > 0 returns (false, nil) when nothing happens for that long.
	// Without quiet, 90 s of silence while no load is held back is a deadlock of the code under test.
	event := func(quiet time.Duration) (bool, *harness.Failure) {
		var timer <-chan time.Time
		if quiet > 0 {
			timer = time.After(quiet)
		} else {
			timer = time.After(90 * time.Second)
		}
		select {
		case k := <-entered:
			inLoad[k] = true
			return true, nil
		case r := <-results:
			finished[r.i] = r
			return true, check(r)
		case <-timer:
			if quiet > 0 {
				return false, nil
			}
			return false, harness.Failf("every get reaches its load or returns", fmt.Sprintf("%d held in load, %d finished of %d, nothing moved for 90 s", waiting(), len(finished), len(keys)), "a get neither returned nor called the load function although no load is held back (deadlock?)")
		}
	}
	settle := func() *harness.Failure {
		for waiting()+len(finished) < len(keys) {
			quiet := 5 * time.Millisecond
			if waiting() == 0 {
				quiet = 0 // nothing is held back: whatever is still running must move
			}
			moved, f := event(quiet)
			if f != nil {
				return f
			}
			if !moved {
				break
			}
		}
		return nil
	}
	if f := settle(); f != nil {
		return false, f
	}
	misses := waiting()
	release := func(i int) bool {
		k := keys[i]
		if inLoad[k] {
			close(gates[k])
			inLoad[k] = false
			return true
		}
		return false
	}
	// after a release: wait until that get has returned, then let the others settle again
	// (gets that were queued behind a serialised load may enter theirs now)
	awaitReturn := func(i int) *harness.Failure {
		for {
			if _, done := finished[i]; done {
				return settle()
			}
			if _, f := event(0); f != nil {
				return f
			}
		}
	}
	if allAtOnce {
		for len(finished) < len(keys) {
			for i := range keys {
				release(i)
			}
			if len(finished) == len(keys) {
				break
			}
			if _, f := event(0); f != nil {
				return false, f
			}
		}
	} else {
		for _, oi := range order {
			i := oi % len(keys)
			if release(i) {
				if f := awaitReturn(i); f != nil {
					return false, f
				}
			}
		}
		for len(finished) < len(keys) {
			released := false
			for i := range keys {
				if release(i) {
					released = true
					if f := awaitReturn(i); f != nil {
						return false, f
					}
				}
			}
			if !released && len(finished) < len(keys) {
				if _, f := event(0); f != nil {
					return false, f
				}
			}
		}
	}
	if n := xpath.VerifCacheLen(c); capacity > 0 && n > capacity {
		return false, harness.Failf(fmt.Sprintf("at most %d entries", capacity), fmt.Sprintf("%d entries", n), "at the end of the schedule")
	}
	return misses >= 2, nil
}

func TestC16Scheduled(t *testing.T) {
	runRapid(t, uC16Sched, func(rt *rapid.T) {
		capacity := rapid.IntRange(1, 3).Draw(rt, "cap")
		pool := []string{"a", "b", "c", "d", "e", "f"}
		nres := rapid.IntRange(0, capacity).Draw(rt, "nresident")
		resident := append([]string{}, pool[:nres]...)
		ng := rapid.IntRange(2, 5).Draw(rt, "goroutines")
		// distinct keys for the concurrent gets; some may be resident (hits)
		perm := rapid.Permutation(pool).Draw(rt, "keys")
		keys := perm[:ng]
		order := rapid.SliceOfN(rapid.IntRange(0, ng-1), ng, ng).Draw(rt, "order")
		all := rapid.IntRange(0, 3).Draw(rt, "all") == 0
		l := &harness.Live{Property: "C16", Check: "C16/cache-scheduled", Params: map[string]interface{}{"cap": capacity, "keys": keys, "resident": resident, "order": order, "all_at_once": all}}
		nt, f := oracleC16Sched(l)
		if f != nil {
			harness.Report(rt, uC16Sched, l, f)
		}
		uC16Sched.Case(harness.Hash64(fmt.Sprint(capacity, keys, resident, order, all)), nt, []string{fmt.Sprintf("cap:%d", capacity), fmt.Sprintf("goroutines:%d", ng)}, func() interface{} {
			return l.Params
		})
	})
}
