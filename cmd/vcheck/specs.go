package main

// unitSpec describes one generator/oracle unit of a property: which test of
// the checks package runs it and with which budgets.
type unitSpec struct {
	Name      string // statistics unit name (as registered in the checks package)
	Test      string // test function name
	Rapid     bool   // driven by rapid (gets -rapid.checks / -rapid.seed)
	Race      bool   // needs the -race build
	Tier      string // "" = both tiers, else only in the named tier
	Steps     int    // -rapid.steps for state-machine properties
	Fuzz      string // native fuzz target (go test -fuzz), run for FuzzTimeS seconds
	FuzzTimeS int

	QuickChecks, ThoroughChecks     int // rapid cases per shard
	QuickShards, ThoroughShards     int
	QuickTimeoutS, ThoroughTimeoutS int // infrastructure watchdog (a trip is inconclusive, never a violation)
	Env                             []string
}

type propSpec struct {
	Units       []unitSpec
	Assumptions []string
}

func (p propSpec) race() bool {
	for _, u := range p.Units {
		if u.Race {
			return true
		}
	}
	return false
}

var commonAssumptions = []string{
	"the harness navigators (internal/xdoc) honour the NodeNavigator contract the way the repository's own test navigator and htmlquery/xmlquery do",
	"documents are bounded (depth <= 4, fan-out <= 5); generated search never establishes absence beyond what was explored",
}

func refAssumptions(extra ...string) []string {
	a := []string{"the reference XPath 1.0 evaluator (internal/xref) is correct; it is guarded by the selftest (golden cases, axis partition/duality laws)"}
	a = append(a, commonAssumptions...)
	return append(a, extra...)
}

var specs = map[string]propSpec{
	"C01": {
		Units: []unitSpec{
			{Name: "rapid-paths", Test: "TestC01Rapid", Rapid: true, QuickChecks: 120000, ThoroughChecks: 1500000, QuickShards: 2, ThoroughShards: 14},
			{Name: "enum-axis-tuples", Test: "TestC01Enum", QuickShards: 2, ThoroughShards: 16},
		},
		Assumptions: refAssumptions(),
	},
	"C02": {
		Units: []unitSpec{
			{Name: "rapid-predicates", Test: "TestC02Rapid", Rapid: true, QuickChecks: 25000, ThoroughChecks: 250000, QuickShards: 4, ThoroughShards: 16, ThoroughTimeoutS: 5400},
		},
		Assumptions: refAssumptions("node-sets that are converted to a string or counted inside predicates are flat paths while the known findings KF-A/KF-B are confirmed present"),
	},
	"C10": {
		Units: []unitSpec{
			{Name: "enum-operator-chains", Test: "TestC10Chains", QuickShards: 4, ThoroughShards: 16},
			{Name: "rapid-roundtrip-whitespace-abbrev", Test: "TestC10RoundTrip", Rapid: true, QuickChecks: 50000, ThoroughChecks: 600000, QuickShards: 4, ThoroughShards: 12},
		},
		Assumptions: append([]string{"the parse tree is observed through the verif-tagged hook VerifParseDump, which renders the tree produced by the unexported parse() without changing it", "the reference for chains is a table-driven precedence-climbing parser over XPath 1.0's tiers"}, commonAssumptions...),
	},
	"C14": {
		Units: []unitSpec{
			{Name: "rapid-namespaces", Test: "TestC14Rapid", Rapid: true, QuickChecks: 60000, ThoroughChecks: 700000, QuickShards: 4, ThoroughShards: 16},
		},
		Assumptions: refAssumptions("the oracle is the statement transcribed; nothing is asserted where it is silent (unprefixed tests under a map, prefix:*, navigators without NamespaceURL under a map)"),
	},
	"C15": {
		Units: []unitSpec{
			{Name: "rapid-unconstrained-expressions", Test: "TestC15Rapid", Rapid: true, QuickChecks: 60000, ThoroughChecks: 800000, QuickShards: 4, ThoroughShards: 14},
			{Name: "enum-ill-typed-calls", Test: "TestC15Enum", QuickShards: 2, ThoroughShards: 2},
			{Name: "enum-pumped-predicates", Test: "TestC15Pumped", QuickShards: 2, ThoroughShards: 4},
			{Name: "fuzz-eval", Fuzz: "FuzzEval", Tier: "thorough", FuzzTimeS: 120, ThoroughShards: 1, ThoroughTimeoutS: 900},
		},
		Assumptions: []string{"all legitimate loops of the engine go through the navigator, so an operation budget of 2*10^7 (confirmed at 4*10^7) on documents of <= ~15 nodes decides non-termination deterministically", "a panic whose value is an error but not a runtime.Error is taken to be raised deliberately by the package", "the harness navigators honour the NodeNavigator contract"},
	},
	"C16": {
		Units: []unitSpec{
			{Name: "rapid-regex", Test: "TestC16Regex", Rapid: true, QuickChecks: 60000, ThoroughChecks: 800000, QuickShards: 2, ThoroughShards: 8},
			{Name: "rapid-cache-histories", Test: "TestC16Cache", Rapid: true, QuickChecks: 40000, ThoroughChecks: 500000, QuickShards: 2, ThoroughShards: 4},
			{Name: "rapid-cache-scheduled", Test: "TestC16Scheduled", Rapid: true, QuickChecks: 3000, ThoroughChecks: 40000, QuickShards: 2, ThoroughShards: 4},
			{Name: "rapid-cache-concurrent", Test: "TestC16Concurrent", Rapid: true, Race: true, QuickChecks: 400, ThoroughChecks: 8000, QuickShards: 2, ThoroughShards: 4},
		},
		Assumptions: []string{"Go's regexp package is the trusted reference for matches()/replace()", "the cache's entry count, capacity and reset counter are observed through verif-tagged accessors that take the cache's read lock", "concurrent schedules are sampled under the race detector, not enumerated", "which entries survive a reset is not asserted (the property only bounds the size)"},
	},
	"C17": {
		Units: []unitSpec{
			{Name: "rapid-damaged-expressions", Test: "TestC17Rapid", Rapid: true, QuickChecks: 15000, ThoroughChecks: 200000, QuickShards: 4, ThoroughShards: 16},
		},
		Assumptions: []string{"only damages that are invalid by construction are generated (a lone leading '/' is never cut after; optional arguments stay optional; literals hold no quote characters)", "trailing garbage beyond the listed damage classes is not asserted"},
	},
	"C11": {
		Units: []unitSpec{
			{Name: "rapid-union", Test: "TestC11Rapid", Rapid: true, QuickChecks: 60000, ThoroughChecks: 700000, QuickShards: 4, ThoroughShards: 16},
		},
		Assumptions: refAssumptions("true 64-bit FNV collisions of the engine's identity hash are not searched for; the alphabet targets ambiguous key renderings"),
	},
	"C12": {
		Units: []unitSpec{
			{Name: "rapid-flat-order", Test: "TestC12Flat", Rapid: true, QuickChecks: 60000, ThoroughChecks: 600000, QuickShards: 2, ThoroughShards: 8},
			{Name: "rapid-iterator-protocol", Test: "TestC12Protocol", Rapid: true, QuickChecks: 40000, ThoroughChecks: 500000, QuickShards: 2, ThoroughShards: 8},
		},
		Assumptions: refAssumptions("count(e) is compared with the length of the sequence the engine yields (duplicates included), as C12 states it"),
	},
	"C13": {
		Units: []unitSpec{
			{Name: "rapid-context-composition", Test: "TestC13Rapid", Rapid: true, QuickChecks: 30000, ThoroughChecks: 300000, QuickShards: 4, ThoroughShards: 16},
		},
		Assumptions: refAssumptions("addr(n) uses child::node()[i] steps (C03 fragment) and @name for attributes (attribute names are unique per element)"),
	},
	"C04": {
		Units: []unitSpec{
			{Name: "rapid-histories", Test: "TestC04Rapid", Rapid: true, QuickChecks: 25000, ThoroughChecks: 400000, QuickShards: 4, ThoroughShards: 10},
			{Name: "rapid-interleaved-iterators", Test: "TestC04Interleaved", Rapid: true, QuickChecks: 25000, ThoroughChecks: 400000, QuickShards: 2, ThoroughShards: 6},
		},
		Assumptions: append([]string{"the oracle is the engine itself on a freshly compiled expression (self-differential); the value's correctness is the business of C01-C03, C07-C09"}, commonAssumptions...),
	},
	"C05": {
		Units: []unitSpec{
			{Name: "rapid-goroutines", Test: "TestC05Rapid", Rapid: true, Race: true, QuickChecks: 600, ThoroughChecks: 8000, QuickShards: 4, ThoroughShards: 12},
		},
		Assumptions: append([]string{"schedules are sampled, not enumerated: the harness owns overlap (start barrier, repetitions) and the Go race detector flags unsynchronised access pairs on the schedules that occurred; a race needing a window the stress did not hit can be missed", "expected values are the engine's own sequential results on a freshly compiled expression"}, commonAssumptions...),
	},
	"C06": {
		Units: []unitSpec{
			{Name: "rapid-mutated-inputs", Test: "TestC06Rapid", Rapid: true, QuickChecks: 100000, ThoroughChecks: 1000000, QuickShards: 4, ThoroughShards: 12},
			{Name: "enum-deep-nesting", Test: "TestC06Deep", QuickShards: 2, ThoroughShards: 4, ThoroughTimeoutS: 3000},
			{Name: "enum-mixed-nesting", Test: "TestC06Mixed", QuickShards: 2, ThoroughShards: 2},
			{Name: "enum-two-phase-nesting", Test: "TestC06TwoPhase", QuickShards: 4, ThoroughShards: 5, ThoroughTimeoutS: 3000},
			{Name: "enum-pumped-segments", Test: "TestC06Pumped", QuickShards: 4, ThoroughShards: 8, ThoroughTimeoutS: 3000},
			{Name: "enum-short-byte-strings", Test: "TestC06ShortBytes", QuickShards: 1, ThoroughShards: 1},
			{Name: "fuzz-compile", Fuzz: "FuzzCompile", Tier: "thorough", FuzzTimeS: 120, ThoroughShards: 1, ThoroughTimeoutS: 900},
		},
		Assumptions: []string{"termination is decided within an explicit wall-clock margin (20 s for inputs <= 64 KB whose typical cost is < 10 ms, re-tried once alone); an algorithm that is merely slow on inputs larger than the generated ones is out of reach", "for repeated sibling constructs termination is decided by an allocation budget: a Compile of an input of at most a few KB that performs more than 6*10^7 heap allocations is reported as not terminating (the engine's own limit keeps every Compile below 2*10^7)", "the quick tier runs the depth cases under debug.SetMaxStack(8 MB): a legitimate process configuration under which unbounded recursion shows at depth 10^5 instead of 3*10^6"},
	},
	"C07": {
		Units: []unitSpec{
			{Name: "rapid-comparisons", Test: "TestC07Rapid", Rapid: true, QuickChecks: 60000, ThoroughChecks: 700000, QuickShards: 4, ThoroughShards: 14},
			{Name: "enum-operand-matrix", Test: "TestC07Matrix", QuickShards: 2, ThoroughShards: 2},
		},
		Assumptions: refAssumptions("only the operand type pairs the statement lists are generated (number/string and boolean/any comparisons, relational operators on strings are not asserted)"),
	},
	"C08": {
		Units: []unitSpec{
			{Name: "rapid-arithmetic", Test: "TestC08Rapid", Rapid: true, QuickChecks: 80000, ThoroughChecks: 800000, QuickShards: 4, ThoroughShards: 15},
			{Name: "enum-number-format-grid", Test: "TestC08FormatGrid", QuickShards: 1, ThoroughShards: 1},
		},
		Assumptions: refAssumptions("both sides perform the same IEEE 754 operations in the same order, so float64 results are compared exactly", "mod only on non-negative integers with a non-zero divisor; sum() only over numeric nodes; round() is not part of the statement"),
	},
	"C09": {
		Units: []unitSpec{
			{Name: "rapid-string-functions", Test: "TestC09Rapid", Rapid: true, QuickChecks: 80000, ThoroughChecks: 800000, QuickShards: 4, ThoroughShards: 14},
			{Name: "enum-substring-sweep", Test: "TestC09SubstringSweep", QuickShards: 1, ThoroughShards: 1},
			{Name: "enum-small-domains", Test: "TestC09SmallDomains", QuickShards: 1, ThoroughShards: 1},
		},
		Assumptions: refAssumptions("ASCII strings only; number-typed arguments of concat and friends are not claimed by the statement"),
	},
	"C03": {
		Units: []unitSpec{
			{Name: "rapid-positional", Test: "TestC03Rapid", Rapid: true, QuickChecks: 50000, ThoroughChecks: 600000, QuickShards: 4, ThoroughShards: 14},
			{Name: "enum-positional-forms", Test: "TestC03Enum", QuickShards: 2, ThoroughShards: 2},
		},
		Assumptions: refAssumptions("positional predicates only where C03 claims them: first predicate of child-axis steps, or [n] on a parenthesised flat path; integers 1..6"),
	},
}
