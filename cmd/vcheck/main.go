// vcheck is the driver of the verification framework:
//
//	vcheck selftest                    build and run the framework's self tests
//	vcheck run Cnn [--tier quick|thorough]
//	vcheck replay <file>               re-run one saved case through its oracle
//
// run: builds the checks package from /repo's working tree (tag verif),
// confirms the known findings, runs the property's units in shards, merges
// their statistics into evidence/<Cnn>.json and prints the verdict.
// Exit codes: 0 property held on everything explored; 1 violation (with a
// "VIOLATION property=<id> replay=<path>" line); 2 infrastructure problem.
package main

import (
	"bytes"
	"encoding/base64"
	"encoding/binary"
	"encoding/json"
	"fmt"
	"os"
	"os/exec"
	"path/filepath"
	"slices"
	"sort"
	"strconv"
	"strings"
	"sync"
	"time"
)

var root string // the /verif directory

func main() {
	wd, err := os.Getwd()
	if err != nil {
		fatal(2, "getwd: %v", err)
	}
	root = wd
	if _, err := os.Stat(filepath.Join(root, "properties.jsonl")); err != nil {
		// fall back to the executable's parent directory (bin/vcheck)
		if exe, e2 := os.Executable(); e2 == nil {
			root = filepath.Dir(filepath.Dir(exe))
		}
	}
	if len(os.Args) < 2 {
		usage()
	}
	switch os.Args[1] {
	case "selftest":
		os.Exit(selftest())
	case "run":
		if len(os.Args) < 3 {
			usage()
		}
		tier := os.Getenv("VERIF_TIER")
		for i := 3; i < len(os.Args); i++ {
			if os.Args[i] == "--tier" && i+1 < len(os.Args) {
				tier = os.Args[i+1]
			}
			if strings.HasPrefix(os.Args[i], "--tier=") {
				tier = strings.TrimPrefix(os.Args[i], "--tier=")
			}
		}
		if tier != "thorough" {
			tier = "quick"
		}
		os.Exit(run(os.Args[2], tier))
	case "replay":
		if len(os.Args) < 3 {
			usage()
		}
		os.Exit(replay(os.Args[2]))
	default:
		usage()
	}
}

func usage() {
	fmt.Fprintln(os.Stderr, "usage: vcheck selftest | run Cnn [--tier quick|thorough] | replay <file>")
	os.Exit(2)
}

func fatal(code int, f string, a ...interface{}) {
	fmt.Fprintf(os.Stderr, "vcheck: "+f+"\n", a...)
	os.Exit(code)
}

func seed() int {
	if v := os.Getenv("VERIF_SEED"); v != "" {
		if n, err := strconv.Atoi(v); err == nil {
			if n < 0 {
				n = -n
			}
			return n
		}
	}
	return 1
}

// goEnv is the environment for every go child: offline module resolution.
func goEnv(extra ...string) []string {
	env := os.Environ()
	env = append(env, "GOFLAGS=-mod=mod", "GOPROXY=off", "GOSUMDB=off", "GOTOOLCHAIN=local", "GONOSUMDB=*", "GONOSUMCHECK=1")
	return append(env, extra...)
}

// build compiles the checks test binary (optionally with -race) and returns its path.
func build(race bool, workdir string) (string, error) {
	bindir := filepath.Join(root, ".work", "bin")
	if err := os.MkdirAll(bindir, 0o755); err != nil {
		return "", err
	}
	name := "checks.test"
	if race {
		name = "checks.race.test"
	}
	final := filepath.Join(bindir, name)
	tmp := fmt.Sprintf("%s.%d", final, os.Getpid())
	args := []string{"test", "-c", "-tags", "verif", "-o", tmp}
	if race {
		args = append(args, "-race")
	}
	if repo := os.Getenv("VERIF_REPO"); repo != "" {
		// alternative repository location (mutant campaign): private modfile
		mod, err := os.ReadFile(filepath.Join(root, "go.mod"))
		if err != nil {
			return "", err
		}
		alt := strings.Replace(string(mod), "=> /repo", "=> "+repo, 1)
		mf := filepath.Join(workdir, "go.mod")
		if err := os.WriteFile(mf, []byte(alt), 0o644); err != nil {
			return "", err
		}
		sum, _ := os.ReadFile(filepath.Join(root, "go.sum"))
		_ = os.WriteFile(filepath.Join(workdir, "go.sum"), sum, 0o644)
		args = append(args, "-modfile", mf)
		final = filepath.Join(workdir, name)
		tmp = final + ".tmp"
		args[5] = tmp
	}
	args = append(args, "./checks")
	cmd := exec.Command("go", args...)
	cmd.Dir = root
	cmd.Env = goEnv()
	out, err := cmd.CombinedOutput()
	if err != nil {
		return "", fmt.Errorf("go %s: %v\n%s", strings.Join(args, " "), err, out)
	}
	if err := os.Rename(tmp, final); err != nil {
		return "", err
	}
	return final, nil
}

func selftest() int {
	work := filepath.Join(root, ".work", "selftest")
	os.RemoveAll(work)
	os.MkdirAll(work, 0o755)
	bin, err := build(false, work)
	if err != nil {
		fmt.Fprintln(os.Stderr, err)
		return 2
	}
	cmd := exec.Command(bin, "-test.run", "^TestSelf", "-test.count=1", "-rapid.checks=3000", "-rapid.seed=1", "-rapid.nofailfile")
	cmd.Dir = work
	cmd.Env = append(os.Environ(), "VERIF_SEED=1")
	out, err := cmd.CombinedOutput()
	if err != nil {
		os.Stdout.Write(out)
		fmt.Println("selftest: FAILED")
		return 2
	}
	fmt.Println("selftest: ok")
	return 0
}

// ---------------------------------------------------------------------------
// known findings

type finding struct {
	ID       string `json:"id"`
	Property string `json:"property"`
	Status   string `json:"status"` // known | fixed
	Class    string `json:"class,omitempty"`
	Commit   string `json:"commit,omitempty"`
	What     string `json:"what"`
	Replay   string `json:"replay,omitempty"` // case file under /verif
}

func loadFindings() ([]finding, error) {
	b, err := os.ReadFile(filepath.Join(root, "known_findings.json"))
	if err != nil {
		if os.IsNotExist(err) {
			return nil, nil
		}
		return nil, err
	}
	var fs struct {
		Findings []finding `json:"findings"`
	}
	if err := json.Unmarshal(b, &fs); err != nil {
		return nil, fmt.Errorf("known_findings.json: %v", err)
	}
	return fs.Findings, nil
}

// runReplay runs one case file through TestReplay; returns reproduced / message.
func runReplay(bin, casefile, workdir string) (reproduced bool, msg string, err error) {
	abs := casefile
	if !filepath.IsAbs(abs) {
		abs = filepath.Join(root, casefile)
	}
	cmd := exec.Command(bin, "-test.run", "^TestReplay$", "-test.count=1", "-test.timeout=300s")
	cmd.Dir = workdir
	cmd.Env = append(os.Environ(), "VERIF_REPLAY="+abs, "GORACE=halt_on_error=1 exitcode=66")
	out, runErr := cmd.CombinedOutput()
	for _, line := range strings.Split(string(out), "\n") {
		if strings.HasPrefix(line, "REPLAY-RESULT: ") {
			rest := strings.TrimPrefix(line, "REPLAY-RESULT: ")
			switch {
			case strings.HasPrefix(rest, "reproduced"):
				return true, strings.TrimSpace(strings.TrimPrefix(rest, "reproduced")), nil
			case strings.HasPrefix(rest, "passed"):
				return false, "", nil
			default:
				return false, "", fmt.Errorf("replay: %s", rest)
			}
		}
	}
	if runErr != nil {
		// the process died (fatal error, race detector exit, stack overflow): that reproduces a crash finding
		tail := string(out)
		if len(tail) > 600 {
			tail = tail[len(tail)-600:]
		}
		return true, "process died: " + strings.ReplaceAll(strings.TrimSpace(firstLine(string(out))), "\n", " "), nil
	}
	return false, "", fmt.Errorf("replay printed no result:\n%s", out)
}

func firstLine(s string) string {
	for _, l := range strings.Split(s, "\n") {
		l = strings.TrimSpace(l)
		if l != "" && (strings.Contains(l, "fatal error") || strings.Contains(l, "panic") || strings.Contains(l, "DATA RACE") || strings.Contains(l, "overflow")) {
			return l
		}
	}
	if i := strings.Index(s, "\n"); i >= 0 {
		return s[:i]
	}
	return s
}

func replay(path string) int {
	work := filepath.Join(root, ".work", "replay")
	os.MkdirAll(work, 0o755)
	b, err := os.ReadFile(path)
	if err != nil {
		fmt.Fprintln(os.Stderr, err)
		return 2
	}
	var c struct {
		Property string `json:"property"`
		Check    string `json:"check"`
	}
	if err := json.Unmarshal(b, &c); err != nil {
		fmt.Fprintln(os.Stderr, err)
		return 2
	}
	spec := specs[c.Property]
	bin, err := build(spec.race(), work)
	if err != nil {
		fmt.Fprintln(os.Stderr, err)
		return 2
	}
	abs, _ := filepath.Abs(path)
	rep, msg, err := runReplay(bin, abs, work)
	if err != nil {
		fmt.Fprintln(os.Stderr, err)
		return 2
	}
	if rep {
		fmt.Printf("reproduced: %s\n", msg)
		fmt.Printf("VIOLATION property=%s replay=%s\n", c.Property, path)
		return 1
	}
	fmt.Println("not reproduced: the property holds on this case")
	return 0
}

// ---------------------------------------------------------------------------
// run

type unitStats struct {
	Property    string                   `json:"property"`
	Name        string                   `json:"unit"`
	Rule        string                   `json:"rule"`
	Evaluations int64                    `json:"evaluations"`
	NonTrivial  int64                    `json:"nontrivial"`
	OutOfDomain int64                    `json:"out_of_domain"`
	Labels      map[string]int64         `json:"labels"`
	Excluded    map[string]int64         `json:"excluded_known"`
	Samples     []map[string]interface{} `json:"samples"`
	Exhaustive  bool                     `json:"exhaustive"`
	SpaceSize   int64                    `json:"space_size"`
	Requested   int64                    `json:"requested"`
	Completed   bool                     `json:"completed"`
	Failed      bool                     `json:"failed"`
}

type procResult struct {
	unit     unitSpec
	shard    int
	exit     int
	err      error
	timedOut bool
	logfile  string
	failfile string
	stats    string
	dur      time.Duration
}

func run(prop, tier string) int {
	start := time.Now()
	spec, ok := specs[prop]
	if !ok {
		fmt.Fprintf(os.Stderr, "vcheck: no check for property %s\n", prop)
		return 2
	}
	sd := seed()
	work := filepath.Join(root, ".work", prop)
	evidencePath := filepath.Join(root, "evidence", prop+".json")
	replayDir := "replays"
	if os.Getenv("VERIF_REPO") != "" {
		// mutant / seeded-change campaign against a scratch copy of the repository:
		// private work directory, and neither evidence/ nor replays/ of the real tree are touched
		tag := os.Getenv("VERIF_WORKTAG")
		if tag == "" {
			tag = "alt"
		}
		work = filepath.Join(root, ".work", prop+"-"+tag)
		evidencePath = filepath.Join(work, "evidence-"+prop+".json")
		replayDir = filepath.Join(".work", prop+"-"+tag, "replays")
	}
	os.RemoveAll(work)
	if err := os.MkdirAll(work, 0o755); err != nil {
		fmt.Fprintln(os.Stderr, err)
		return 2
	}
	os.MkdirAll(filepath.Join(root, "evidence"), 0o755)

	// 1. build from the working tree
	bins := map[bool]string{}
	for _, u := range spec.Units {
		if u.Fuzz != "" {
			continue
		}
		if _, ok := bins[u.Race]; !ok {
			b, err := build(u.Race, work)
			if err != nil {
				fmt.Fprintln(os.Stderr, err)
				fmt.Fprintln(os.Stderr, "vcheck: build failed (inconclusive, not a violation)")
				return 2
			}
			bins[u.Race] = b
		}
	}
	anyBin := bins[spec.race()]

	// 2. confirm known findings; regressions of fixed ones are violations
	findings, err := loadFindings()
	if err != nil {
		fmt.Fprintln(os.Stderr, err)
		return 2
	}
	var exclude []string
	var knownLines []string
	var violations []string
	for _, f := range findings {
		if f.Replay == "" {
			continue
		}
		switch f.Status {
		case "known":
			fb := anyBin
			if fs, ok := specs[f.Property]; ok && fs.race() != spec.race() {
				if b, ok := bins[fs.race()]; ok {
					fb = b
				} else if f.Property != prop && fs.race() {
					// confirming a race finding of another property needs the race build; only its class matters here
					if f.Class != "" {
						exclude = append(exclude, f.Class)
					}
					continue
				}
			}
			rep, msg, err := runReplay(fb, f.Replay, work)
			if err != nil {
				fmt.Fprintf(os.Stderr, "vcheck: replay of %s: %v\n", f.ID, err)
				return 2
			}
			if rep {
				if f.Class != "" {
					exclude = append(exclude, f.Class)
				}
				if f.Property == prop {
					knownLines = append(knownLines, fmt.Sprintf("KNOWN-FINDING: property=%s %s: %s [still reproduces: %s]", f.Property, f.ID, f.What, msg))
				}
			}
		case "fixed":
			if f.Property != prop || os.Getenv("VERIF_NO_REGRESSION") != "" {
				// VERIF_NO_REGRESSION: campaigns measuring what the generated search finds on its own
				continue
			}
			rep, msg, err := runReplay(anyBin, f.Replay, work)
			if err != nil {
				fmt.Fprintf(os.Stderr, "vcheck: replay of %s: %v\n", f.ID, err)
				return 2
			}
			if rep {
				fmt.Printf("regression of fixed finding %s (%s): %s\n", f.ID, f.What, msg)
				violations = append(violations, f.Replay)
			}
		}
	}
	for _, l := range knownLines {
		fmt.Println(l)
	}

	// 3. search: run every unit in shards, at most 16 processes at a time
	type job struct {
		u     unitSpec
		shard int
		n     int
	}
	var jobs []job
	for _, u := range spec.Units {
		if u.Tier != "" && u.Tier != tier {
			continue
		}
		n := u.QuickShards
		if tier == "thorough" {
			n = u.ThoroughShards
		}
		if n <= 0 {
			n = 1
		}
		for s := 0; s < n; s++ {
			jobs = append(jobs, job{u, s, n})
		}
	}
	maxProcs := 16
	if v := os.Getenv("VERIF_PROCS"); v != "" {
		if n, err := strconv.Atoi(v); err == nil && n > 0 {
			maxProcs = n
		}
	}
	sem := make(chan struct{}, maxProcs)
	results := make([]procResult, len(jobs))
	var wg sync.WaitGroup
	for i, j := range jobs {
		wg.Add(1)
		go func(i int, j job) {
			defer wg.Done()
			sem <- struct{}{}
			defer func() { <-sem }()
			results[i] = runProc(bins[j.u.Race], work, prop, tier, sd, j.u, j.shard, j.n, exclude)
		}(i, j)
	}
	wg.Wait()

	// 4. collect
	infra := 0
	merged := map[string]*unitStats{}
	hashes := map[string][]uint64{}
	var order []string
	for _, r := range results {
		failExists := fileExists(r.failfile)
		if r.exit != 0 || r.err != nil || r.timedOut {
			if failExists {
				violations = append(violations, r.failfile)
			} else if crash := crashCase(r); crash != "" {
				violations = append(violations, crash)
			} else {
				infra++
				fmt.Fprintf(os.Stderr, "vcheck: %s shard %d ended abnormally (exit %d, timeout %v, err %v) without a failing case; see %s\n", r.unit.Name, r.shard, r.exit, r.timedOut, r.err, r.logfile)
				tailLog(r.logfile)
			}
		} else if failExists {
			violations = append(violations, r.failfile)
		}
		us, err := readStats(r.stats)
		if err != nil {
			if r.exit == 0 {
				infra++
				fmt.Fprintf(os.Stderr, "vcheck: missing statistics of %s shard %d: %v\n", r.unit.Name, r.shard, err)
			}
			continue
		}
		for _, u := range us {
			m, ok := merged[u.Name]
			if !ok {
				c := *u
				c.Labels = map[string]int64{}
				c.Excluded = map[string]int64{}
				c.Samples = nil
				c.Evaluations, c.NonTrivial, c.OutOfDomain, c.SpaceSize, c.Requested = 0, 0, 0, 0, 0
				c.Completed = true
				m = &c
				merged[u.Name] = m
				order = append(order, u.Name)
			}
			m.Evaluations += u.Evaluations
			m.NonTrivial += u.NonTrivial
			m.OutOfDomain += u.OutOfDomain
			m.SpaceSize += u.SpaceSize
			m.Requested += u.Requested
			m.Completed = m.Completed && u.Completed
			m.Exhaustive = m.Exhaustive || u.Exhaustive
			m.Failed = m.Failed || u.Failed
			for k, v := range u.Labels {
				m.Labels[k] += v
			}
			for k, v := range u.Excluded {
				m.Excluded[k] += v
			}
			if len(m.Samples) < 8 {
				for _, s := range u.Samples {
					if len(m.Samples) < 8 {
						m.Samples = append(m.Samples, s)
					}
				}
			}
			hs, _ := readHashes(r.stats + "." + u.Name + ".hashes")
			hashes[u.Name] = append(hashes[u.Name], hs...)
		}
	}
	sort.Strings(order)

	// a unit that did not complete its requested size without reporting a failure is inconclusive
	for _, name := range order {
		m := merged[name]
		if !m.Completed && !m.Failed && len(violations) == 0 {
			infra++
			fmt.Fprintf(os.Stderr, "vcheck: unit %s did not complete (ran %d cases)\n", name, m.Evaluations)
		}
	}

	// 5. evidence
	var totalEval, totalDistinct, totalOOD int64
	var samples []interface{}
	classes := map[string]map[string]int64{}
	excluded := map[string]int64{}
	var unitsOut []map[string]interface{}
	var rules []string
	exhaustiveAll := len(order) > 0
	for _, name := range order {
		m := merged[name]
		d := distinct(hashes[name])
		totalEval += m.Evaluations
		totalDistinct += d
		totalOOD += m.OutOfDomain
		classes[name] = m.Labels
		for k, v := range m.Excluded {
			excluded[k] += v
		}
		for _, s := range m.Samples {
			samples = append(samples, s)
		}
		if !m.Exhaustive {
			exhaustiveAll = false
		}
		unitsOut = append(unitsOut, map[string]interface{}{
			"unit": name, "evaluations": m.Evaluations, "nontrivial": m.NonTrivial, "distinct_nontrivial": d,
			"out_of_domain": m.OutOfDomain, "exhaustive": m.Exhaustive, "space_size": m.SpaceSize, "requested": m.Requested, "completed": m.Completed,
		})
		if len(rules) == 0 || rules[len(rules)-1] != m.Rule {
			rules = append(rules, m.Rule)
		}
	}
	ev := map[string]interface{}{
		"property_id": prop,
		"tier":        tier,
		"seed":        sd,
		"level":       "exploration",
		"coverage": map[string]interface{}{
			"evaluations":         totalEval,
			"distinct_nontrivial": totalDistinct,
			"rule":                strings.Join(rules, " || "),
			"samples":             samples,
			"classes":             classes,
			"units":               unitsOut,
			"excluded_known":      excluded,
			"active_exclusions":   exclude,
			"out_of_domain":       totalOOD,
			"exhaustive":          exhaustiveAll,
			"processes":           len(jobs),
		},
		"assumptions": spec.Assumptions,
		"wall_s":      time.Since(start).Seconds(),
		"violations":  len(violations),
	}
	if err := writeJSON(evidencePath, ev); err != nil {
		fmt.Fprintln(os.Stderr, err)
		return 2
	}

	// 6. verdict
	if len(violations) > 0 {
		os.MkdirAll(filepath.Join(root, replayDir), 0o755)
		seen := map[string]bool{}
		for _, v := range violations {
			dst := v
			if strings.HasPrefix(v, work) {
				b, err := os.ReadFile(v)
				if err != nil {
					continue
				}
				dst = filepath.Join(replayDir, fmt.Sprintf("%s-%016x.json", prop, fnv64(b)))
				_ = os.WriteFile(filepath.Join(root, dst), b, 0o644)
			}
			if seen[dst] {
				continue
			}
			seen[dst] = true
			printCaseSummary(filepath.Join(root, dst))
			fmt.Printf("VIOLATION property=%s replay=%s\n", prop, dst)
		}
		return 1
	}
	if infra > 0 {
		fmt.Printf("INCONCLUSIVE property=%s: %d unit process(es) ended abnormally without a violation\n", prop, infra)
		return 2
	}
	fmt.Printf("OK property=%s tier=%s seed=%d evaluations=%d distinct_nontrivial=%d wall=%.1fs\n", prop, tier, sd, totalEval, totalDistinct, time.Since(start).Seconds())
	return 0
}

func printCaseSummary(path string) {
	b, err := os.ReadFile(path)
	if err != nil {
		return
	}
	var c map[string]interface{}
	if json.Unmarshal(b, &c) != nil {
		return
	}
	if c["expr"] == nil {
		pb, _ := json.Marshal(c["params"])
		if len(pb) > 300 {
			pb = append(pb[:300], "..."...)
		}
		fmt.Printf("  case: check=%v params=%s\n  expected=%v\n  got=%v\n  note=%v\n", c["check"], pb, c["expected"], c["got"], c["note"])
		return
	}
	fmt.Printf("  case: check=%v expr=%q doc=%v ctx=%v\n  expected=%v\n  got=%v\n  note=%v\n", c["check"], c["expr"], c["doc"], c["ctx"], c["expected"], c["got"], c["note"])
}

func fnv64(b []byte) uint64 {
	h := uint64(14695981039346656037)
	for _, c := range b {
		h ^= uint64(c)
		h *= 1099511628211
	}
	return h
}

func fileExists(p string) bool {
	if p == "" {
		return false
	}
	_, err := os.Stat(p)
	return err == nil
}

func tailLog(p string) {
	b, err := os.ReadFile(p)
	if err != nil {
		return
	}
	if len(b) > 3000 {
		b = b[len(b)-3000:]
	}
	os.Stderr.Write(b)
	fmt.Fprintln(os.Stderr)
}

// crashCase turns the journal of a process that died (fatal error, stack
// overflow, race-detector exit) into a replay file naming the case it was running.
func crashCase(r procResult) string {
	j := strings.TrimSuffix(r.failfile, ".json") + ".journal.json"
	if !fileExists(j) {
		return ""
	}
	b, err := os.ReadFile(j)
	if err != nil || len(bytes.TrimSpace(b)) == 0 {
		return ""
	}
	var c map[string]interface{}
	if json.Unmarshal(b, &c) != nil {
		return ""
	}
	logb, _ := os.ReadFile(r.logfile)
	c["got"] = "process died: " + firstLine(string(logb))
	if r.timedOut {
		c["got"] = "process did not finish within its time limit while running this case"
	}
	c["expected"] = "the case completes"
	out := strings.TrimSuffix(r.failfile, ".json") + ".crash.json"
	if writeJSON(out, c) != nil {
		return ""
	}
	return out
}

// runFuzz runs a native go fuzz target for a bounded time. Go's fuzzer cannot
// be pinned to a seed; the saved failing input is the reproducible unit. A
// crasher is converted into a replay case and removed from testdata so that a
// stale file can never poison a later run.
func runFuzz(work, prop string, u unitSpec, exclude []string) procResult {
	r := procResult{unit: u,
		logfile:  filepath.Join(work, "log-"+u.Name+".txt"),
		failfile: filepath.Join(work, "fail-"+u.Name+".json"),
		stats:    filepath.Join(work, "stats-"+u.Name+".json"),
	}
	tdir := filepath.Join(root, "checks", "testdata", "fuzz", u.Fuzz)
	os.RemoveAll(tdir)
	if v, err := strconv.Atoi(os.Getenv("VERIF_FUZZTIME")); err == nil && v > 0 {
		u.FuzzTimeS = v
	}
	args := []string{"test", "-tags", "verif", "-run", "^$", "-fuzz", "^" + u.Fuzz + "$", "-fuzztime", fmt.Sprintf("%ds", u.FuzzTimeS), "./checks"}
	if repo := os.Getenv("VERIF_REPO"); repo != "" {
		args = append(args[:3], append([]string{"-modfile", filepath.Join(work, "go.mod")}, args[3:]...)...)
	}
	cmd := exec.Command("go", args...)
	cmd.Dir = root
	cmd.Env = goEnv("VERIF_EXCLUDE=" + strings.Join(exclude, ","))
	t0 := time.Now()
	out, err := cmd.CombinedOutput()
	r.dur = time.Since(t0)
	os.WriteFile(r.logfile, out, 0o644)
	// statistics from the fuzzer's own progress lines
	var execs, interesting int64
	for _, line := range strings.Split(string(out), "\n") {
		if i := strings.Index(line, "execs: "); i >= 0 {
			fmt.Sscanf(line[i:], "execs: %d", &execs)
		}
		if i := strings.Index(line, "new interesting: "); i >= 0 {
			fmt.Sscanf(line[i:], "new interesting: %d", &interesting)
		}
	}
	entries, _ := os.ReadDir(tdir)
	if err != nil {
		if len(entries) == 0 {
			if ee, ok := err.(*exec.ExitError); ok {
				r.exit = ee.ExitCode()
			} else {
				r.err = err
			}
			return r
		}
		// convert the crasher
		b, _ := os.ReadFile(filepath.Join(tdir, entries[0].Name()))
		var vals []string
		for _, ln := range strings.Split(string(b), "\n") {
			if strings.HasPrefix(ln, "string(") {
				if s, e := strconv.Unquote(strings.TrimSuffix(strings.TrimPrefix(ln, "string("), ")")); e == nil {
					vals = append(vals, s)
				}
			}
			if strings.HasPrefix(ln, "byte(") {
				if s, e := strconv.Unquote(strings.TrimSuffix(strings.TrimPrefix(ln, "byte("), ")")); e == nil && len(s) > 0 {
					vals = append(vals, fmt.Sprint(int(s[0])))
				} else if e == nil {
					vals = append(vals, "0")
				}
			}
		}
		c := map[string]interface{}{"property": prop, "note": "native fuzz crasher " + entries[0].Name(), "got": firstFuzzFailure(string(out))}
		if len(vals) > 0 {
			c["expr"] = vals[0]
			c["params"] = map[string]interface{}{"input_b64": b64(vals[0])}
		}
		switch u.Fuzz {
		case "FuzzCompile":
			c["check"] = "C06/total"
			if len(vals) > 1 {
				n, _ := strconv.Atoi(vals[1])
				switch n % 4 {
				case 1:
					c["has_ns_map"] = true
				case 2:
					c["has_ns_map"] = true
					c["ns_map"] = map[string]string{}
				case 3:
					c["has_ns_map"] = true
					c["ns_map"] = map[string]string{"p": "u1"}
				}
			}
		case "FuzzEval":
			c["check"] = "C15/no-runtime-error"
			c["doc"] = "<a x='1'><a>{2}</a><b>{t}</b><!--c--></a>"
			if len(vals) > 1 {
				n, _ := strconv.Atoi(vals[1])
				c["ctx"] = n % 8
			}
		}
		writeJSON(r.failfile, c)
		os.RemoveAll(tdir)
		r.exit = 1
	}
	os.RemoveAll(filepath.Join(root, "checks", "testdata"))
	st := []map[string]interface{}{{
		"property": prop, "unit": u.Name, "rule": "native go fuzzing of " + u.Fuzz + " for " + fmt.Sprint(u.FuzzTimeS) + " s (coverage-guided, not seedable); evaluations = executions, distinct non-trivial = inputs that increased coverage",
		"evaluations": execs, "nontrivial": interesting, "labels": map[string]int64{"fuzz-execs": execs, "coverage-increasing-inputs": interesting},
		"excluded_known": map[string]int64{}, "samples": []interface{}{}, "completed": true, "requested": execs,
	}}
	writeJSON(r.stats, st)
	// the distinct count of a fuzz unit is the fuzzer's own count of coverage-increasing inputs
	hb := make([]byte, 0, 8*interesting)
	for i := int64(0); i < interesting; i++ {
		hb = binary.LittleEndian.AppendUint64(hb, fnv64([]byte(u.Name))+uint64(i))
	}
	os.WriteFile(r.stats+"."+u.Name+".hashes", hb, 0o644)
	return r
}

func b64(s string) string { return base64.StdEncoding.EncodeToString([]byte(s)) }

func firstFuzzFailure(out string) string {
	for _, l := range strings.Split(out, "\n") {
		if strings.Contains(l, "VIOLATION") || strings.Contains(l, "panic:") || strings.Contains(l, "fatal error") {
			return strings.TrimSpace(l)
		}
	}
	return "fuzz target failed"
}

func runProc(bin, work, prop, tier string, sd int, u unitSpec, shard, shards int, exclude []string) procResult {
	if u.Fuzz != "" {
		return runFuzz(work, prop, u, exclude)
	}
	tag := fmt.Sprintf("%s-%d", u.Name, shard)
	r := procResult{unit: u, shard: shard,
		logfile:  filepath.Join(work, "log-"+tag+".txt"),
		failfile: filepath.Join(work, "fail-"+tag+".json"),
		stats:    filepath.Join(work, "stats-"+tag+".json"),
	}
	rapidSeed := uint64(sd)*1000003 + uint64(shard)*7919 + uint64(len(u.Name))*104729 + 1
	checks := u.QuickChecks
	timeout := u.QuickTimeoutS
	if tier == "thorough" {
		checks = u.ThoroughChecks
		timeout = u.ThoroughTimeoutS
	}
	if timeout <= 0 {
		timeout = 1800
		if tier == "thorough" {
			timeout = 3600
		}
	}
	args := []string{"-test.run", "^" + u.Test + "$", "-test.count=1", "-test.timeout=0"}
	if u.Rapid {
		args = append(args, fmt.Sprintf("-rapid.checks=%d", checks), fmt.Sprintf("-rapid.seed=%d", rapidSeed), "-rapid.nofailfile", "-rapid.shrinktime=25s")
		if u.Steps > 0 {
			args = append(args, fmt.Sprintf("-rapid.steps=%d", u.Steps))
		}
	}
	cmd := exec.Command(bin, args...)
	cmd.Dir = work
	env := append(os.Environ(),
		"VERIF_STATS="+r.stats, "VERIF_FAILFILE="+r.failfile,
		"VERIF_JOURNAL="+strings.TrimSuffix(r.failfile, ".json")+".journal.json",
		fmt.Sprintf("VERIF_SHARD=%d", shard), fmt.Sprintf("VERIF_SHARDS=%d", shards),
		fmt.Sprintf("VERIF_SEED=%d", sd), "VERIF_TIER="+tier,
		fmt.Sprintf("VERIF_RAPID_SEED=%d", rapidSeed),
		fmt.Sprintf("VERIF_CHECKS=%d", checks),
		"VERIF_EXCLUDE="+strings.Join(exclude, ","),
		"VERIF_WORK="+work,
		"VERIF_ROOT="+root,
	)
	if u.Race {
		env = append(env, "GORACE=halt_on_error=0 log_path="+filepath.Join(work, "race-"+tag))
	}
	env = append(env, u.Env...)
	cmd.Env = env
	lf, err := os.Create(r.logfile)
	if err != nil {
		r.err = err
		return r
	}
	defer lf.Close()
	cmd.Stdout = lf
	cmd.Stderr = lf
	t0 := time.Now()
	if err := cmd.Start(); err != nil {
		r.err = err
		return r
	}
	done := make(chan error, 1)
	go func() { done <- cmd.Wait() }()
	select {
	case err := <-done:
		if err != nil {
			if ee, ok := err.(*exec.ExitError); ok {
				r.exit = ee.ExitCode()
				if r.exit == 0 {
					r.exit = -1
				}
			} else {
				r.err = err
			}
		}
	case <-time.After(time.Duration(timeout) * time.Second):
		cmd.Process.Kill()
		<-done
		r.timedOut = true
		r.exit = -2
	}
	r.dur = time.Since(t0)
	return r
}

func readStats(p string) ([]*unitStats, error) {
	b, err := os.ReadFile(p)
	if err != nil {
		return nil, err
	}
	var us []*unitStats
	if err := json.Unmarshal(b, &us); err != nil {
		return nil, err
	}
	return us, nil
}

func readHashes(p string) ([]uint64, error) {
	b, err := os.ReadFile(p)
	if err != nil {
		return nil, err
	}
	out := make([]uint64, 0, len(b)/8)
	for i := 0; i+8 <= len(b); i += 8 {
		out = append(out, binary.LittleEndian.Uint64(b[i:]))
	}
	return out, nil
}

func distinct(h []uint64) int64 {
	if len(h) == 0 {
		return 0
	}
	slices.Sort(h)
	n := int64(1)
	for i := 1; i < len(h); i++ {
		if h[i] != h[i-1] {
			n++
		}
	}
	return n
}

func writeJSON(p string, v interface{}) error {
	var buf bytes.Buffer
	enc := json.NewEncoder(&buf)
	enc.SetEscapeHTML(false)
	enc.SetIndent("", " ")
	if err := enc.Encode(v); err != nil {
		return err
	}
	return os.WriteFile(p, buf.Bytes(), 0o644)
}
