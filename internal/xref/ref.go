// Package xref is the reference XPath 1.0 evaluator used as the oracle. It is
// written for clarity: node-sets are slices sorted in document order without
// duplicates, every axis is a direct transcription of XPath 1.0 section 2.2,
// conversions follow section 4. It evaluates the generator's AST and shares no
// code and no parsing decision with the engine under test.
package xref

import (
	"fmt"
	"math"
	"regexp"
	"sort"
	"strconv"
	"strings"

	"github.com/antchfx/xpath"

	"verif/internal/xast"
	"verif/internal/xdoc"
)

// NodeSet is a node-set in document order without duplicates.
type NodeSet []*xdoc.Node

// IDs returns the node IDs of the set.
func (s NodeSet) IDs() []int {
	out := make([]int, len(s))
	for i, n := range s {
		out[i] = n.ID
	}
	return out
}

// Env carries what is constant during one evaluation.
type Env struct {
	Doc *xdoc.Doc
	// Match decides name tests (Kind "name"); nil means "prefix and local name equal".
	Match func(t xast.NodeTest, n *xdoc.Node) bool
	// Work counts evaluation steps; beyond Limit (default DefaultLimit) the
	// evaluation gives up with OutOfDomain: nested predicates over '//' paths on
	// large documents cost n^k in this deliberately naive evaluator.
	Work  int64
	Limit int64
}

// DefaultLimit bounds the work of one reference evaluation.
const DefaultLimit = 2000000

// Ctx is the dynamic context.
type Ctx struct {
	Node      *xdoc.Node
	Pos, Size int
}

// OutOfDomain is returned when an expression leaves the fragment the reference
// evaluator is willing to decide (the case is then skipped and counted).
type OutOfDomain struct{ Msg string }

func (e OutOfDomain) Error() string { return "out of domain: " + e.Msg }

func fail(f string, a ...interface{}) { panic(OutOfDomain{fmt.Sprintf(f, a...)}) }

// Eval evaluates e with ctx as context node.
func Eval(env *Env, e xast.Expr, ctx *xdoc.Node) (v interface{}, err error) {
	defer func() {
		if r := recover(); r != nil {
			if re, ok := r.(OutOfDomain); ok {
				err = re
				return
			}
			panic(r)
		}
	}()
	env.Work = 0
	return env.eval(e, Ctx{Node: ctx, Pos: 1, Size: 1}), nil
}

// EvalDoc is Eval with the default environment.
func EvalDoc(d *xdoc.Doc, e xast.Expr, ctx *xdoc.Node) (interface{}, error) {
	return Eval(&Env{Doc: d}, e, ctx)
}

// SortSet sorts in document order and removes duplicates.
func SortSet(s []*xdoc.Node) NodeSet {
	if len(s) <= 1 {
		return NodeSet(s)
	}
	out := make(NodeSet, len(s))
	copy(out, s)
	sort.Slice(out, func(i, j int) bool { return out[i].ID < out[j].ID })
	w := 0
	for i, n := range out {
		if i == 0 || n != out[w-1] {
			out[w] = n
			w++
		}
	}
	return out[:w]
}

func descend(m *xdoc.Node, res *[]*xdoc.Node) {
	for _, k := range m.Kids {
		*res = append(*res, k)
		descend(k, res)
	}
}

// AxisNodes returns the nodes on axis from n, in axis order (reverse document
// order for reverse axes).
func AxisNodes(axis string, n *xdoc.Node) (res []*xdoc.Node) {
	isAttr := n.Kind == xpath.AttributeNode
	switch axis {
	case "self":
		res = []*xdoc.Node{n}
	case "child":
		if !isAttr {
			res = append(res, n.Kids...)
		}
	case "attribute":
		if n.Kind == xpath.ElementNode {
			res = append(res, n.Attrs...)
		}
	case "parent":
		if n.Parent != nil {
			res = []*xdoc.Node{n.Parent}
		}
	case "descendant":
		if !isAttr {
			descend(n, &res)
		}
	case "descendant-or-self":
		res = []*xdoc.Node{n}
		if !isAttr {
			descend(n, &res)
		}
	case "ancestor", "ancestor-or-self":
		if axis == "ancestor-or-self" {
			res = append(res, n)
		}
		for p := n.Parent; p != nil; p = p.Parent {
			res = append(res, p)
		}
	case "following-sibling":
		if !isAttr && n.Parent != nil {
			res = append(res, n.Parent.Kids[n.Idx+1:]...)
		}
	case "preceding-sibling":
		if !isAttr && n.Parent != nil {
			for i := n.Idx - 1; i >= 0; i-- {
				res = append(res, n.Parent.Kids[i])
			}
		}
	case "following":
		// All nodes after n in document order, excluding descendants and
		// attribute nodes. For an attribute node the children of its parent
		// element (and their descendants) come after it.
		start := n
		if isAttr {
			start = n.Parent
			descend(start, &res)
		}
		for m := start; m.Parent != nil; m = m.Parent {
			for _, s := range m.Parent.Kids[m.Idx+1:] {
				res = append(res, s)
				descend(s, &res)
			}
		}
	case "preceding":
		// All nodes before n in document order, excluding ancestors and attributes.
		start := n
		if isAttr {
			start = n.Parent
		}
		var all []*xdoc.Node
		for m := start; m.Parent != nil; m = m.Parent {
			var lvl []*xdoc.Node
			for _, s := range m.Parent.Kids[:m.Idx] {
				lvl = append(lvl, s)
				descend(s, &lvl)
			}
			all = append(lvl, all...)
		}
		for i := len(all) - 1; i >= 0; i-- {
			res = append(res, all[i])
		}
	default:
		fail("unknown axis %s", axis)
	}
	return
}

// TestNode applies a node test on the given axis.
func (env *Env) TestNode(axis string, t xast.NodeTest, n *xdoc.Node) bool {
	principal := xpath.ElementNode
	if axis == "attribute" {
		principal = xpath.AttributeNode
	}
	switch t.Kind {
	case "node":
		return true
	case "text":
		return n.Kind == xpath.TextNode
	case "comment":
		return n.Kind == xpath.CommentNode
	case "wild":
		return n.Kind == principal
	case "name":
		if n.Kind != principal {
			return false
		}
		if env.Match != nil {
			return env.Match(t, n)
		}
		return n.Local == t.Local && n.Prefix == t.Prefix
	}
	fail("unsupported node test %s", t.Kind)
	return false
}

func (env *Env) applyPreds(nodes []*xdoc.Node, preds []xast.Expr) []*xdoc.Node {
	for _, p := range preds {
		var out []*xdoc.Node
		for i, m := range nodes {
			v := env.eval(p, Ctx{Node: m, Pos: i + 1, Size: len(nodes)})
			keep := false
			if f, ok := v.(float64); ok {
				keep = f == float64(i+1)
			} else {
				keep = ToBool(v)
			}
			if keep {
				out = append(out, m)
			}
		}
		nodes = out
	}
	return nodes
}

// TryStepNodes is StepNodes with its own work budget; ok is false when the
// budget ran out (used by generators for guidance only).
func (env *Env) TryStepNodes(s *xast.Step, n *xdoc.Node) (res []*xdoc.Node, ok bool) {
	defer func() {
		if r := recover(); r != nil {
			if _, is := r.(OutOfDomain); is {
				res, ok = nil, false
				return
			}
			panic(r)
		}
	}()
	env.Work = 0
	return env.StepNodes(s, n), true
}

// StepNodes evaluates one step from one node (axis order, predicates applied).
func (env *Env) StepNodes(s *xast.Step, n *xdoc.Node) []*xdoc.Node {
	cand := AxisNodes(s.Axis, n)
	env.Work += int64(len(cand)) / 8
	var f []*xdoc.Node
	for _, m := range cand {
		if env.TestNode(s.Axis, s.Test, m) {
			f = append(f, m)
		}
	}
	if len(s.Preds) == 0 {
		return f
	}
	return env.applyPreds(f, s.Preds)
}

func (env *Env) eval(e xast.Expr, c Ctx) interface{} {
	env.Work++
	limit := env.Limit
	if limit == 0 {
		limit = DefaultLimit
	}
	if env.Work > limit {
		fail("reference evaluator work budget exceeded")
	}
	switch x := e.(type) {
	case *xast.Path:
		var cur NodeSet
		switch {
		case x.Start != nil:
			v := env.eval(x.Start, c)
			ns, ok := v.(NodeSet)
			if !ok {
				fail("path start is not a node-set")
			}
			cur = ns
		case x.Abs:
			cur = NodeSet{env.Doc.Root}
		default:
			cur = NodeSet{c.Node}
		}
		for _, s := range x.Steps {
			var next []*xdoc.Node
			for _, n := range cur {
				switch st := s.(type) {
				case xast.DSlash:
					next = append(next, AxisNodes("descendant-or-self", n)...)
				case *xast.Step:
					next = append(next, env.StepNodes(st, n)...)
				case *xast.SeqStep:
					for _, a := range st.Alts {
						next = append(next, env.StepNodes(a, n)...)
					}
				}
			}
			cur = SortSet(next)
		}
		return cur
	case *xast.Filter:
		v := env.eval(x.Primary, c)
		ns, ok := v.(NodeSet)
		if !ok {
			fail("filter on a non node-set")
		}
		return NodeSet(env.applyPreds(ns, x.Preds))
	case *xast.Group:
		return env.eval(x.X, c)
	case *xast.Neg:
		return -ToNum(env.eval(x.X, c))
	case *xast.Num:
		f, err := strconv.ParseFloat(x.Lit, 64)
		if err != nil {
			fail("bad number literal %q", x.Lit)
		}
		return f
	case *xast.Str:
		return x.S
	case *xast.Bin:
		switch x.Op {
		case "or":
			if ToBool(env.eval(x.L, c)) {
				return true
			}
			return ToBool(env.eval(x.R, c))
		case "and":
			if !ToBool(env.eval(x.L, c)) {
				return false
			}
			return ToBool(env.eval(x.R, c))
		case "|":
			l, ok1 := env.eval(x.L, c).(NodeSet)
			r, ok2 := env.eval(x.R, c).(NodeSet)
			if !ok1 || !ok2 {
				fail("union of a non node-set")
			}
			return SortSet(append(append([]*xdoc.Node{}, l...), r...))
		case "=", "!=", "<", "<=", ">", ">=":
			return Compare(x.Op, env.eval(x.L, c), env.eval(x.R, c))
		case "+", "-", "*", "div", "mod":
			a, b := ToNum(env.eval(x.L, c)), ToNum(env.eval(x.R, c))
			switch x.Op {
			case "+":
				return a + b
			case "-":
				return a - b
			case "*":
				return a * b
			case "div":
				return a / b
			case "mod":
				return math.Mod(a, b)
			}
		}
	case *xast.Call:
		return env.call(x, c)
	}
	fail("cannot evaluate %T", e)
	return nil
}

func cmpNum(op string, a, b float64) bool {
	switch op {
	case "=":
		return a == b
	case "!=":
		return a != b
	case "<":
		return a < b
	case "<=":
		return a <= b
	case ">":
		return a > b
	case ">=":
		return a >= b
	}
	return false
}

// Compare implements XPath 1.0 section 3.4.
func Compare(op string, l, r interface{}) bool {
	ls, lok := l.(NodeSet)
	rs, rok := r.(NodeSet)
	switch {
	case lok && rok:
		for _, a := range ls {
			for _, b := range rs {
				if cmpAtom(op, xdoc.StringValue(a), xdoc.StringValue(b)) {
					return true
				}
			}
		}
		return false
	case lok:
		return cmpSetAtom(op, ls, r, false)
	case rok:
		return cmpSetAtom(op, rs, l, true)
	}
	return cmpAtom(op, l, r)
}

func cmpSetAtom(op string, s NodeSet, v interface{}, flipped bool) bool {
	switch y := v.(type) {
	case bool:
		a, b := interface{}(len(s) > 0), interface{}(y)
		if flipped {
			a, b = b, a
		}
		return cmpAtom(op, a, b)
	case float64:
		for _, n := range s {
			a, b := interface{}(StrToNum(xdoc.StringValue(n))), interface{}(y)
			if flipped {
				a, b = b, a
			}
			if cmpAtom(op, a, b) {
				return true
			}
		}
	case string:
		for _, n := range s {
			a, b := interface{}(xdoc.StringValue(n)), interface{}(y)
			if flipped {
				a, b = b, a
			}
			if cmpAtom(op, a, b) {
				return true
			}
		}
	}
	return false
}

func cmpAtom(op string, a, b interface{}) bool {
	if op == "=" || op == "!=" {
		_, ab := a.(bool)
		_, bb := b.(bool)
		if ab || bb {
			x, y := ToBool(a), ToBool(b)
			return (x == y) == (op == "=")
		}
		_, an := a.(float64)
		_, bn := b.(float64)
		if an || bn {
			return cmpNum(op, ToNum(a), ToNum(b))
		}
		return (ToStr(a) == ToStr(b)) == (op == "=")
	}
	return cmpNum(op, ToNum(a), ToNum(b))
}

// ToBool is the boolean() conversion.
func ToBool(v interface{}) bool {
	switch x := v.(type) {
	case bool:
		return x
	case float64:
		return x != 0 && !math.IsNaN(x)
	case string:
		return x != ""
	case NodeSet:
		return len(x) > 0
	}
	fail("ToBool %T", v)
	return false
}

var numRe = regexp.MustCompile(`^[ \t\r\n]*-?([0-9]+(\.[0-9]*)?|\.[0-9]+)[ \t\r\n]*$`)

// IsXPathNumber reports whether s matches the XPath 1.0 Number grammar with
// optional surrounding whitespace and an optional leading minus.
func IsXPathNumber(s string) bool { return numRe.MatchString(s) }

// StrToNum is the string to number conversion of XPath 1.0 section 4.4.
func StrToNum(s string) float64 {
	if !numRe.MatchString(s) {
		return math.NaN()
	}
	f, err := strconv.ParseFloat(strings.Trim(s, " \t\r\n"), 64)
	if err != nil {
		return math.NaN()
	}
	return f
}

// ToNum is the number() conversion.
func ToNum(v interface{}) float64 {
	switch x := v.(type) {
	case bool:
		if x {
			return 1
		}
		return 0
	case float64:
		return x
	case string:
		return StrToNum(x)
	case NodeSet:
		return StrToNum(ToStr(x))
	}
	fail("ToNum %T", v)
	return 0
}

// NumToStr is the number to string conversion of XPath 1.0 section 4.2: plain
// decimal notation with the shortest digits that round-trip.
func NumToStr(f float64) string {
	switch {
	case math.IsNaN(f):
		return "NaN"
	case math.IsInf(f, 1):
		return "Infinity"
	case math.IsInf(f, -1):
		return "-Infinity"
	case f == 0:
		return "0"
	}
	return strconv.FormatFloat(f, 'f', -1, 64)
}

// ToStr is the string() conversion.
func ToStr(v interface{}) string {
	switch x := v.(type) {
	case bool:
		if x {
			return "true"
		}
		return "false"
	case float64:
		return NumToStr(x)
	case string:
		return x
	case NodeSet:
		if len(x) == 0 {
			return ""
		}
		return xdoc.StringValue(x[0])
	}
	fail("ToStr %T", v)
	return ""
}

// Round is XPath round(): floor(x + 0.5), NaN and infinities unchanged.
func Round(f float64) float64 {
	if math.IsNaN(f) || math.IsInf(f, 0) {
		return f
	}
	return math.Floor(f + 0.5)
}

func isXMLSpace(r rune) bool { return r == ' ' || r == '\t' || r == '\r' || r == '\n' }

func (env *Env) call(x *xast.Call, c Ctx) interface{} {
	arg := func(i int) interface{} {
		if i >= len(x.Args) {
			fail("%s: missing argument %d", x.Name, i)
		}
		return env.eval(x.Args[i], c)
	}
	sarg := func(i int) string { return ToStr(arg(i)) }
	optNodeArg := func() *xdoc.Node {
		if len(x.Args) == 0 {
			return c.Node
		}
		ns, ok := arg(0).(NodeSet)
		if !ok {
			fail("%s argument is not a node-set", x.Name)
		}
		if len(ns) == 0 {
			return nil
		}
		return ns[0]
	}
	switch x.Name {
	case "last":
		return float64(c.Size)
	case "position":
		return float64(c.Pos)
	case "count":
		ns, ok := arg(0).(NodeSet)
		if !ok {
			fail("count of a non node-set")
		}
		return float64(len(ns))
	case "sum":
		ns, ok := arg(0).(NodeSet)
		if !ok {
			fail("sum of a non node-set")
		}
		s := 0.0
		for _, n := range ns {
			s += StrToNum(xdoc.StringValue(n))
		}
		return s
	case "number":
		if len(x.Args) == 0 {
			return StrToNum(xdoc.StringValue(c.Node))
		}
		return ToNum(arg(0))
	case "string":
		if len(x.Args) == 0 {
			return xdoc.StringValue(c.Node)
		}
		return ToStr(arg(0))
	case "boolean":
		return ToBool(arg(0))
	case "not":
		return !ToBool(arg(0))
	case "true":
		return true
	case "false":
		return false
	case "floor":
		return math.Floor(ToNum(arg(0)))
	case "ceiling":
		return math.Ceil(ToNum(arg(0)))
	case "round":
		return Round(ToNum(arg(0)))
	case "concat":
		var sb strings.Builder
		for i := range x.Args {
			sb.WriteString(sarg(i))
		}
		return sb.String()
	case "contains":
		return strings.Contains(sarg(0), sarg(1))
	case "starts-with":
		return strings.HasPrefix(sarg(0), sarg(1))
	case "ends-with":
		return strings.HasSuffix(sarg(0), sarg(1))
	case "substring-before":
		s, t := sarg(0), sarg(1)
		if i := strings.Index(s, t); i >= 0 {
			return s[:i]
		}
		return ""
	case "substring-after":
		s, t := sarg(0), sarg(1)
		if i := strings.Index(s, t); i >= 0 {
			return s[i+len(t):]
		}
		return ""
	case "substring":
		s := []rune(sarg(0))
		start := Round(ToNum(arg(1)))
		end := math.Inf(1)
		if len(x.Args) > 2 {
			end = start + Round(ToNum(arg(2)))
		}
		var sb strings.Builder
		for i, r := range s {
			p := float64(i + 1)
			if p >= start && p < end {
				sb.WriteRune(r)
			}
		}
		return sb.String()
	case "string-length":
		if len(x.Args) == 0 {
			return float64(len([]rune(xdoc.StringValue(c.Node))))
		}
		return float64(len([]rune(sarg(0))))
	case "normalize-space":
		var s string
		if len(x.Args) == 0 {
			s = xdoc.StringValue(c.Node)
		} else {
			s = sarg(0)
		}
		return strings.Join(strings.FieldsFunc(s, isXMLSpace), " ")
	case "translate":
		s, from, to := []rune(sarg(0)), []rune(sarg(1)), []rune(sarg(2))
		var sb strings.Builder
		for _, r := range s {
			idx := -1
			for i, f := range from {
				if f == r {
					idx = i
					break
				}
			}
			switch {
			case idx < 0:
				sb.WriteRune(r)
			case idx < len(to):
				sb.WriteRune(to[idx])
			}
		}
		return sb.String()
	case "lower-case":
		return strings.ToLower(sarg(0))
	case "string-join":
		ns, ok := arg(0).(NodeSet)
		if !ok {
			fail("string-join of a non node-set")
		}
		var parts []string
		for _, n := range ns {
			parts = append(parts, xdoc.StringValue(n))
		}
		return strings.Join(parts, sarg(1))
	case "name":
		n := optNodeArg()
		if n == nil {
			return ""
		}
		return n.QName()
	case "local-name":
		n := optNodeArg()
		if n == nil {
			return ""
		}
		return n.Local
	case "namespace-uri":
		n := optNodeArg()
		if n == nil {
			return ""
		}
		return n.NS
	}
	fail("unknown function %s", x.Name)
	return nil
}
