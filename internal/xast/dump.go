package xast

import (
	"strconv"
	"strings"
)

// Dump renders an AST in the format of the engine's verif-tagged parse-tree
// dump (VerifParseDump): fully parenthesised operators, step(input,axis,test),
// filter(input,cond), neg(x), group(x), call(name:args), num(..), str(..).
// Comparing Dump(e) with the engine's dump of Render(e) is the parser round-trip.
func Dump(e Expr) string {
	switch x := e.(type) {
	case *Bin:
		// where Render has to parenthesise an operand, the parse tree has a group node
		p := Prec(x.Op)
		l, r := Dump(x.L), Dump(x.R)
		if eprec(x.L) < p {
			l = "group(" + l + ")"
		}
		if eprec(x.R) <= p {
			r = "group(" + r + ")"
		}
		return "(" + l + " " + x.Op + " " + r + ")"
	case *Neg:
		// the engine folds a run of unary minus signs by parity; where Render has
		// to parenthesise the operand, the parse tree has a group node
		n := 0
		var inner Expr = x
		for {
			m, ok := inner.(*Neg)
			if !ok {
				break
			}
			n++
			inner = m.X
		}
		d := Dump(inner)
		if eprec(inner) < 7 {
			d = "group(" + d + ")"
		}
		if n%2 == 0 {
			return d
		}
		return "neg(" + d + ")"
	case *Num:
		f, err := strconv.ParseFloat(x.Lit, 64)
		if err != nil {
			return "num(?" + x.Lit + ")"
		}
		return "num(" + strconv.FormatFloat(f, 'g', -1, 64) + ")"
	case *Str:
		return "str(" + strconv.Quote(x.S) + ")"
	case *Var:
		return "var(" + x.Name + ")"
	case *Group:
		switch x.X.(type) {
		case *Num, *Str:
			return Dump(x.X) // a parenthesised constant is not wrapped
		}
		return "group(" + Dump(x.X) + ")"
	case *Call:
		a := make([]string, 0, len(x.Args))
		for _, y := range x.Args {
			a = append(a, Dump(y))
		}
		return "call(" + x.Name + ":" + strings.Join(a, ",") + ")"
	case *Filter:
		cur := Dump(x.Primary)
		for _, p := range x.Preds {
			cur = "filter(" + cur + "," + Dump(p) + ")"
		}
		return cur
	case *Path:
		cur := "ctx"
		switch {
		case x.Start != nil:
			cur = Dump(x.Start)
		case x.Abs:
			cur = "root"
		}
		for _, s := range x.Steps {
			switch st := s.(type) {
			case DSlash:
				cur = "step(" + cur + ",descendant-or-self,node())"
			case *Step:
				cur = dumpStep(cur, st)
			case *SeqStep:
				acc := ""
				for i, a := range st.Alts {
					d := dumpStep(cur, a)
					if i == 0 {
						acc = d
					} else {
						acc = "(" + acc + " | " + d + ")"
					}
				}
				cur = acc
			}
		}
		return cur
	}
	return "?"
}

func dumpTest(t NodeTest) string {
	switch t.Kind {
	case "name":
		if t.Prefix != "" {
			return t.Prefix + ":" + t.Local
		}
		return t.Local
	case "wild":
		return "*"
	case "pwild":
		return t.Prefix + ":*"
	}
	return t.Kind + "()"
}

func dumpStep(cur string, s *Step) string {
	d := "step(" + cur + "," + s.Axis + "," + dumpTest(s.Test) + ")"
	for _, p := range s.Preds {
		d = "filter(" + d + "," + Dump(p) + ")"
	}
	return d
}

// ParseChain is the reference parser for an unparenthesised operator chain
// o0 op1 o1 ... opk ok: precedence climbing over XPath 1.0's tiers, every
// binary operator left-associative.
func ParseChain(opnds []Expr, ops []string) Expr {
	pos := 0
	var climb func(minPrec int) Expr
	climb = func(minPrec int) Expr {
		lhs := opnds[pos]
		for pos < len(ops) && Prec(ops[pos]) >= minPrec {
			op := ops[pos]
			pos++
			rhs := climb(Prec(op) + 1)
			lhs = &Bin{Op: op, L: lhs, R: rhs}
		}
		return lhs
	}
	return climb(0)
}

// Expand returns a copy of e with every step written in its unabbreviated form.
func Expand(e Expr) Expr { return mapAbbr(e, func(bool) bool { return false }) }

// Abbreviate returns a copy of e with every step abbreviated where possible.
func Abbreviate(e Expr) Expr { return mapAbbr(e, func(bool) bool { return true }) }

func mapAbbr(e Expr, f func(bool) bool) Expr {
	mapList := func(l []Expr) []Expr {
		var out []Expr
		for _, x := range l {
			out = append(out, mapAbbr(x, f))
		}
		return out
	}
	mapStep := func(s *Step) *Step {
		c := *s
		c.Abbr = f(s.Abbr)
		c.Preds = mapList(s.Preds)
		return &c
	}
	switch x := e.(type) {
	case nil:
		return nil
	case *Path:
		c := &Path{Abs: x.Abs, Start: mapAbbr(x.Start, f)}
		for _, s := range x.Steps {
			switch st := s.(type) {
			case DSlash:
				c.Steps = append(c.Steps, st)
			case *Step:
				c.Steps = append(c.Steps, mapStep(st))
			case *SeqStep:
				q := &SeqStep{}
				for _, a := range st.Alts {
					q.Alts = append(q.Alts, mapStep(a))
				}
				c.Steps = append(c.Steps, q)
			}
		}
		return c
	case *Filter:
		return &Filter{Primary: mapAbbr(x.Primary, f), Preds: mapList(x.Preds)}
	case *Group:
		return &Group{X: mapAbbr(x.X, f)}
	case *Bin:
		return &Bin{Op: x.Op, L: mapAbbr(x.L, f), R: mapAbbr(x.R, f)}
	case *Neg:
		return &Neg{X: mapAbbr(x.X, f)}
	case *Call:
		return &Call{Name: x.Name, Args: mapList(x.Args)}
	}
	return e
}

// RenderExpanded renders e with '//' written as /descendant-or-self::node()/
// and every step unabbreviated.
func RenderExpanded(e Expr) string {
	toks := Tokens(expandDS(Expand(e)))
	return Join(toks, canonicalSep(toks))
}

func expandDS(e Expr) Expr {
	mapList := func(l []Expr) []Expr {
		var out []Expr
		for _, x := range l {
			out = append(out, expandDS(x))
		}
		return out
	}
	mapStep := func(s *Step) *Step {
		c := *s
		c.Preds = mapList(s.Preds)
		return &c
	}
	switch x := e.(type) {
	case nil:
		return nil
	case *Path:
		c := &Path{Abs: x.Abs, Start: expandDS(x.Start)}
		for _, s := range x.Steps {
			switch st := s.(type) {
			case DSlash:
				c.Steps = append(c.Steps, &Step{Axis: "descendant-or-self", Test: NodeTest{Kind: "node"}})
			case *Step:
				c.Steps = append(c.Steps, mapStep(st))
			case *SeqStep:
				q := &SeqStep{}
				for _, a := range st.Alts {
					q.Alts = append(q.Alts, mapStep(a))
				}
				c.Steps = append(c.Steps, q)
			}
		}
		return c
	case *Filter:
		return &Filter{Primary: expandDS(x.Primary), Preds: mapList(x.Preds)}
	case *Group:
		return &Group{X: expandDS(x.X)}
	case *Bin:
		return &Bin{Op: x.Op, L: expandDS(x.L), R: expandDS(x.R)}
	case *Neg:
		return &Neg{X: expandDS(x.X)}
	case *Call:
		return &Call{Name: x.Name, Args: mapList(x.Args)}
	}
	return e
}
