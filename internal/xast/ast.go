// Package xast is the harness's own XPath expression AST. Generators build
// ASTs; the engine only ever sees text rendered from them, and the reference
// evaluator only ever sees the AST.
package xast

import (
	"encoding/json"
	"fmt"
	"strings"
)

// Expr is any expression node.
type Expr interface{}

// NodeTest is a node test: Kind is one of name, wild, node, text, comment, pwild (prefix:*).
type NodeTest struct {
	Kind   string
	Prefix string
	Local  string
}

// Step is one location step.
type Step struct {
	Axis  string
	Test  NodeTest
	Preds []Expr
	Abbr  bool // render abbreviated when an abbreviation exists
}

// SeqStep is the sequence step p/(a, b).
type SeqStep struct{ Alts []*Step }

// DSlash marks '//' before the next step (= /descendant-or-self::node()/).
type DSlash struct{}

// Path is a location path, optionally starting from a filter expression.
type Path struct {
	Abs   bool
	Start Expr          // optional: Filter/Group/Call/Var start
	Steps []interface{} // *Step | *SeqStep | DSlash
}

// Filter is Primary[pred]...
type Filter struct {
	Primary Expr
	Preds   []Expr
}

// Group is a parenthesised expression.
type Group struct{ X Expr }

// Bin is a binary operator application.
type Bin struct {
	Op   string
	L, R Expr
}

// Neg is unary minus.
type Neg struct{ X Expr }

// Num is a number literal kept as written.
type Num struct{ Lit string }

// Str is a string literal.
// Str is a string literal. DQ asks for double quotes; a literal that contains one
// kind of quote is always delimited by the other.
type Str struct {
	S  string
	DQ bool
}

// Call is a function call.
type Call struct {
	Name string
	Args []Expr
}

// Var is a variable reference $name.
type Var struct{ Name string }

// Axes lists the twelve supported axes.
var Axes = []string{"ancestor", "ancestor-or-self", "attribute", "child", "descendant", "descendant-or-self", "following", "following-sibling", "parent", "preceding", "preceding-sibling", "self"}

// ReverseAxis reports whether axis is a reverse axis.
func ReverseAxis(a string) bool {
	switch a {
	case "ancestor", "ancestor-or-self", "preceding", "preceding-sibling":
		return true
	}
	return false
}

// Prec is the binding strength of a binary operator (higher binds tighter).
func Prec(op string) int {
	switch op {
	case "or":
		return 1
	case "and":
		return 2
	case "=", "!=":
		return 3
	case "<", "<=", ">", ">=":
		return 4
	case "+", "-":
		return 5
	case "*", "div", "mod":
		return 6
	case "|":
		return 8
	}
	return 0
}

func eprec(e Expr) int {
	switch x := e.(type) {
	case *Bin:
		return Prec(x.Op)
	case *Neg:
		return 7
	}
	return 9
}

// ---------------------------------------------------------------------------
// Token stream

// TokKind classifies tokens for the whitespace rules.
type TokKind int

const (
	TName   TokKind = iota // NCName/QName/axis name/function name/node type/operator name
	TNumber                // number literal
	TString                // quoted literal
	TPunct                 // everything else
)

// Token is one lexical token of a rendered expression.
type Token struct {
	Text string
	Kind TokKind
	// SpaceAfter asks the canonical renderer to put a blank after (and Before: before) this token.
	Pad bool
}

type tokbuf struct {
	toks []Token
	// FullParens parenthesises every binary operand that is itself an operator application.
	full bool
}

func (b *tokbuf) p(s string)      { b.toks = append(b.toks, Token{Text: s, Kind: TPunct}) }
func (b *tokbuf) name(s string)   { b.toks = append(b.toks, Token{Text: s, Kind: TName}) }
func (b *tokbuf) opname(s string) { b.toks = append(b.toks, Token{Text: s, Kind: TName, Pad: true}) }
func (b *tokbuf) op(s string)     { b.toks = append(b.toks, Token{Text: s, Kind: TPunct, Pad: true}) }

func (b *tokbuf) test(t NodeTest) {
	switch t.Kind {
	case "name":
		if t.Prefix != "" {
			b.name(t.Prefix + ":" + t.Local)
		} else {
			b.name(t.Local)
		}
	case "wild":
		b.p("*")
	case "pwild":
		b.name(t.Prefix + ":*")
	case "node", "text", "comment", "processing-instruction":
		b.name(t.Kind)
		b.p("(")
		b.p(")")
	default:
		panic("xast: bad node test " + t.Kind)
	}
}

func (b *tokbuf) step(s *Step) {
	switch {
	case s.Abbr && s.Axis == "self" && s.Test.Kind == "node":
		b.p(".")
	case s.Abbr && s.Axis == "parent" && s.Test.Kind == "node":
		b.p("..")
	case s.Abbr && s.Axis == "child":
		b.test(s.Test)
	case s.Abbr && s.Axis == "attribute":
		b.p("@")
		b.test(s.Test)
	default:
		b.name(s.Axis)
		b.p("::")
		b.test(s.Test)
	}
	for _, p := range s.Preds {
		b.p("[")
		b.expr(p)
		b.p("]")
	}
}

func (b *tokbuf) expr(e Expr) {
	switch x := e.(type) {
	case *Path:
		if x.Start != nil {
			b.expr(x.Start)
		}
		if x.Abs && len(x.Steps) == 0 {
			b.p("/")
			return
		}
		needSlash := x.Abs || x.Start != nil
		first := true
		pendingD := false
		for _, s := range x.Steps {
			if _, ok := s.(DSlash); ok {
				pendingD = true
				continue
			}
			if pendingD {
				b.p("//")
			} else if needSlash || !first {
				b.p("/")
			}
			pendingD = false
			first = false
			switch st := s.(type) {
			case *Step:
				b.step(st)
			case *SeqStep:
				b.p("(")
				for i, a := range st.Alts {
					if i > 0 {
						b.toks = append(b.toks, Token{Text: ",", Kind: TPunct})
					}
					b.step(a)
				}
				b.p(")")
			}
		}
	case *Filter:
		b.expr(x.Primary)
		for _, p := range x.Preds {
			b.p("[")
			b.expr(p)
			b.p("]")
		}
	case *Group:
		b.p("(")
		b.expr(x.X)
		b.p(")")
	case *Bin:
		p := Prec(x.Op)
		lp, rp := eprec(x.L), eprec(x.R)
		lparen := lp < p
		rparen := rp <= p
		if b.full {
			lparen = lp < 9
			rparen = rp < 9
		}
		if lparen {
			b.p("(")
		}
		b.expr(x.L)
		if lparen {
			b.p(")")
		}
		switch x.Op {
		case "and", "or", "div", "mod":
			b.opname(x.Op)
		default:
			b.op(x.Op)
		}
		if rparen {
			b.p("(")
		}
		b.expr(x.R)
		if rparen {
			b.p(")")
		}
	case *Neg:
		b.p("-")
		paren := eprec(x.X) < 7
		if b.full {
			paren = eprec(x.X) < 9
		}
		if paren {
			b.p("(")
		}
		b.expr(x.X)
		if paren {
			b.p(")")
		}
	case *Num:
		b.toks = append(b.toks, Token{Text: x.Lit, Kind: TNumber})
	case *Str:
		q := "'"
		if strings.Contains(x.S, "'") || (x.DQ && !strings.Contains(x.S, "\"")) {
			q = "\""
		}
		b.toks = append(b.toks, Token{Text: q + x.S + q, Kind: TString})
	case *Call:
		b.name(x.Name)
		b.p("(")
		for i, a := range x.Args {
			if i > 0 {
				b.toks = append(b.toks, Token{Text: ",", Kind: TPunct})
			}
			b.expr(a)
		}
		b.p(")")
	case *Var:
		b.p("$")
		b.name(x.Name)
	default:
		panic(fmt.Sprintf("xast: render %T", e))
	}
}

// Tokens renders e with the minimum of parentheses XPath 1.0 precedence and
// left-associativity require.
func Tokens(e Expr) []Token {
	b := &tokbuf{}
	b.expr(e)
	return b.toks
}

// TokensFull renders e with every operator operand parenthesised.
func TokensFull(e Expr) []Token {
	b := &tokbuf{full: true}
	b.expr(e)
	return b.toks
}

func isNameChar(c byte) bool {
	return c == '_' || c == '-' || c == '.' || c == ':' || (c >= '0' && c <= '9') || (c >= 'a' && c <= 'z') || (c >= 'A' && c <= 'Z') || c >= 0x80
}

// NeedSep reports whether tokens a and b, written without a separator, would
// be split differently by a longest-match XPath 1.0 lexer.
func NeedSep(a, b Token) bool {
	if a.Text == "" || b.Text == "" {
		return false
	}
	first := b.Text[0]
	last := a.Text[len(a.Text)-1]
	switch a.Kind {
	case TName:
		// a following name character (letter, digit, '-', '.', ':') would extend the name;
		// '::' after an axis name is fine ("child::").
		if b.Text == "::" {
			return false
		}
		return isNameChar(first)
	case TNumber:
		return (first >= '0' && first <= '9') || first == '.'
	case TPunct:
		switch {
		case last == '/' && first == '/':
			return true
		case (last == '<' || last == '>' || last == '!') && first == '=':
			return true
		case last == '.' && (first == '.' || (first >= '0' && first <= '9')):
			return true
		case a.Text == "::" && first == ':':
			return true
		}
	}
	return false
}

// Join concatenates tokens using sep(i) between token i and i+1; sep may return
// "" only where NeedSep is false (Join inserts a blank otherwise).
func Join(toks []Token, sep func(i int) string) string {
	var sb strings.Builder
	for i, t := range toks {
		sb.WriteString(t.Text)
		if i+1 < len(toks) {
			s := ""
			if sep != nil {
				s = sep(i)
			}
			if s == "" && NeedSep(t, toks[i+1]) {
				s = " "
			}
			sb.WriteString(s)
		}
	}
	return sb.String()
}

func canonicalSep(toks []Token) func(int) string {
	return func(i int) string {
		if toks[i].Pad || toks[i+1].Pad {
			return " "
		}
		if toks[i].Text == "," {
			return " "
		}
		return ""
	}
}

// Render is the canonical rendering: minimal parentheses, blanks around binary operators.
func Render(e Expr) string {
	toks := Tokens(e)
	return Join(toks, canonicalSep(toks))
}

// RenderFull renders with every operand parenthesised.
func RenderFull(e Expr) string {
	toks := TokensFull(e)
	return Join(toks, canonicalSep(toks))
}

// ---------------------------------------------------------------------------
// Traversal helpers

// Walk calls f on e and every sub-expression (including predicates and steps' predicates).
func Walk(e Expr, f func(Expr)) {
	if e == nil {
		return
	}
	f(e)
	switch x := e.(type) {
	case *Path:
		if x.Start != nil {
			Walk(x.Start, f)
		}
		for _, s := range x.Steps {
			switch st := s.(type) {
			case *Step:
				f(st)
				for _, p := range st.Preds {
					Walk(p, f)
				}
			case *SeqStep:
				for _, a := range st.Alts {
					f(a)
					for _, p := range a.Preds {
						Walk(p, f)
					}
				}
			}
		}
	case *Filter:
		Walk(x.Primary, f)
		for _, p := range x.Preds {
			Walk(p, f)
		}
	case *Group:
		Walk(x.X, f)
	case *Bin:
		Walk(x.L, f)
		Walk(x.R, f)
	case *Neg:
		Walk(x.X, f)
	case *Call:
		for _, a := range x.Args {
			Walk(a, f)
		}
	}
}

// HasCall reports whether e contains a call to one of names.
// notNodeSet reports whether e is statically something other than a node-set.
func notNodeSet(e Expr) bool {
	switch x := e.(type) {
	case *Str, *Num, *Neg:
		return true
	case *Bin:
		return x.Op != "|"
	case *Call:
		return x.Name != "reverse"
	case *Group:
		return notNodeSet(x.X)
	case *Filter:
		return notNodeSet(x.Primary)
	case *Path:
		return x.Start != nil && notNodeSet(x.Start)
	}
	return false
}

// IllTypedUnion reports whether e holds a '|' one of whose operands is statically not a
// node-set ('a' | b, 1.5 | //b, count(a) | b): valid by the grammar, a type error by the
// rest of the recommendation, which an implementation may reject when it compiles.
func IllTypedUnion(e Expr) bool {
	found := false
	Walk(e, func(x Expr) {
		if b, ok := x.(*Bin); ok && b.Op == "|" && (notNodeSet(b.L) || notNodeSet(b.R)) {
			found = true
		}
	})
	return found
}

func HasCall(e Expr, names ...string) bool {
	found := false
	Walk(e, func(x Expr) {
		if c, ok := x.(*Call); ok {
			for _, n := range names {
				if c.Name == n {
					found = true
				}
			}
		}
	})
	return found
}

// AxesUsed returns the set of axes appearing anywhere in e.
func AxesUsed(e Expr) map[string]bool {
	m := map[string]bool{}
	Walk(e, func(x Expr) {
		if s, ok := x.(*Step); ok {
			m[s.Axis] = true
		}
		if p, ok := x.(*Path); ok {
			for _, s := range p.Steps {
				if _, ok := s.(DSlash); ok {
					m["//"] = true
				}
			}
		}
	})
	return m
}

// ---------------------------------------------------------------------------
// JSON (replay files)

type jnode map[string]interface{}

func toJ(e Expr) interface{} {
	switch x := e.(type) {
	case nil:
		return nil
	case *Path:
		var steps []interface{}
		for _, s := range x.Steps {
			switch st := s.(type) {
			case DSlash:
				steps = append(steps, jnode{"t": "ds"})
			case *Step:
				steps = append(steps, stepJ(st))
			case *SeqStep:
				var alts []interface{}
				for _, a := range st.Alts {
					alts = append(alts, stepJ(a))
				}
				steps = append(steps, jnode{"t": "seq", "alts": alts})
			}
		}
		return jnode{"t": "path", "abs": x.Abs, "start": toJ(x.Start), "steps": steps}
	case *Filter:
		return jnode{"t": "filter", "x": toJ(x.Primary), "preds": listJ(x.Preds)}
	case *Group:
		return jnode{"t": "group", "x": toJ(x.X)}
	case *Bin:
		return jnode{"t": "bin", "op": x.Op, "l": toJ(x.L), "r": toJ(x.R)}
	case *Neg:
		return jnode{"t": "neg", "x": toJ(x.X)}
	case *Num:
		return jnode{"t": "num", "lit": x.Lit}
	case *Str:
		if x.DQ {
			return jnode{"t": "str", "s": x.S, "dq": true}
		}
		return jnode{"t": "str", "s": x.S}
	case *Call:
		return jnode{"t": "call", "name": x.Name, "args": listJ(x.Args)}
	case *Var:
		return jnode{"t": "var", "name": x.Name}
	}
	panic(fmt.Sprintf("xast: toJ %T", e))
}

func listJ(es []Expr) []interface{} {
	out := []interface{}{}
	for _, e := range es {
		out = append(out, toJ(e))
	}
	return out
}

func stepJ(s *Step) jnode {
	return jnode{"t": "step", "axis": s.Axis, "kind": s.Test.Kind, "prefix": s.Test.Prefix, "local": s.Test.Local, "abbr": s.Abbr, "preds": listJ(s.Preds)}
}

// Marshal encodes an AST for a replay file.
func Marshal(e Expr) json.RawMessage {
	b, err := json.Marshal(toJ(e))
	if err != nil {
		panic(err)
	}
	return b
}

// Unmarshal decodes an AST written by Marshal.
func Unmarshal(b json.RawMessage) (e Expr, err error) {
	if len(b) == 0 || string(b) == "null" {
		return nil, nil
	}
	var v interface{}
	if err := json.Unmarshal(b, &v); err != nil {
		return nil, err
	}
	defer func() {
		if r := recover(); r != nil {
			err = fmt.Errorf("xast: bad AST JSON: %v", r)
		}
	}()
	return fromJ(v), nil
}

func str(m map[string]interface{}, k string) string {
	s, _ := m[k].(string)
	return s
}

func fromList(v interface{}) []Expr {
	l, _ := v.([]interface{})
	var out []Expr
	for _, x := range l {
		out = append(out, fromJ(x))
	}
	return out
}

func stepFrom(m map[string]interface{}) *Step {
	ab, _ := m["abbr"].(bool)
	return &Step{Axis: str(m, "axis"), Test: NodeTest{Kind: str(m, "kind"), Prefix: str(m, "prefix"), Local: str(m, "local")}, Abbr: ab, Preds: fromList(m["preds"])}
}

func fromJ(v interface{}) Expr {
	if v == nil {
		return nil
	}
	m := v.(map[string]interface{})
	switch str(m, "t") {
	case "path":
		abs, _ := m["abs"].(bool)
		p := &Path{Abs: abs, Start: fromJ(m["start"])}
		l, _ := m["steps"].([]interface{})
		for _, s := range l {
			sm := s.(map[string]interface{})
			switch str(sm, "t") {
			case "ds":
				p.Steps = append(p.Steps, DSlash{})
			case "step":
				p.Steps = append(p.Steps, stepFrom(sm))
			case "seq":
				q := &SeqStep{}
				al, _ := sm["alts"].([]interface{})
				for _, a := range al {
					q.Alts = append(q.Alts, stepFrom(a.(map[string]interface{})))
				}
				p.Steps = append(p.Steps, q)
			}
		}
		return p
	case "filter":
		return &Filter{Primary: fromJ(m["x"]), Preds: fromList(m["preds"])}
	case "group":
		return &Group{X: fromJ(m["x"])}
	case "bin":
		return &Bin{Op: str(m, "op"), L: fromJ(m["l"]), R: fromJ(m["r"])}
	case "neg":
		return &Neg{X: fromJ(m["x"])}
	case "num":
		return &Num{Lit: str(m, "lit")}
	case "str":
		dq, _ := m["dq"].(bool)
		return &Str{S: str(m, "s"), DQ: dq}
	case "call":
		return &Call{Name: str(m, "name"), Args: fromList(m["args"])}
	case "var":
		return &Var{Name: str(m, "name")}
	}
	panic("unknown node type " + str(m, "t"))
}
