package xgen

import (
	"math"
	"strings"

	"pgregory.net/rapid"

	"verif/internal/xast"
	"verif/internal/xdoc"
	"verif/internal/xref"
)

// ---------------------------------------------------------------------------
// C07: comparison / boolean matrix

// CmpDoc is the document shape for C07: values numeric, non-numeric, empty, mixed,
// including strings on which Go's ParseFloat and the XPath Number grammar disagree.
func CmpDoc() DocOpts {
	o := DefaultDoc()
	o.Texts = []string{"1", "2", "10", "-3", "0", "t", "1.5", "x y", " 12 ", "1e3", "+5", "Inf", "0x1p4", "NaN", ".5", "7."}
	o.AtVals = []string{"1", "2", "t", "", "-3", "1e3", " 2", "10"}
	o.MaxDepth = 3
	o.MaxFan = 4
	return o
}

var cmpNumLits = []string{"0", "1", "2", "10", "1.5", "3", "1000", "12", "18446744073709551616", "20000000000000000000", "9007199254740993"}
var cmpStrLits = []string{"1", "2", "t", "10", "x y", "", "-3", "1e3", " 12 ", "12", "NaN", "it's"}

// NumOperand draws a number-typed operand (incl. NaN and the infinities).
func (g *G) NumOperand(ctx *xdoc.Node) xast.Expr {
	switch g.intn(10, "numkind") {
	case 0:
		return &xast.Call{Name: "number", Args: []xast.Expr{&xast.Str{S: "x"}}} // NaN
	case 1:
		return &xast.Bin{Op: "div", L: &xast.Num{Lit: "1"}, R: &xast.Num{Lit: "0"}} // +Infinity
	case 2:
		return &xast.Bin{Op: "div", L: &xast.Neg{X: &xast.Num{Lit: "1"}}, R: &xast.Num{Lit: "0"}} // -Infinity
	case 3:
		return &xast.Call{Name: "count", Args: []xast.Expr{g.FlatPath(xref.NodeSet{ctx})}}
	case 4:
		return &xast.Neg{X: &xast.Num{Lit: g.pick(cmpNumLits, "nlit")}}
	}
	if g.chance(1, "parenlit") {
		return &xast.Group{X: &xast.Num{Lit: g.pick(cmpNumLits, "nlit")}} // (1): a parenthesised literal
	}
	return &xast.Num{Lit: g.pick(cmpNumLits, "nlit")}
}

// StrOperand draws a string-typed operand.
func (g *G) StrOperand(ctx *xdoc.Node) xast.Expr {
	if g.chance(2, "strfn") {
		return &xast.Call{Name: "string", Args: []xast.Expr{g.FlatPath(xref.NodeSet{ctx})}}
	}
	if g.chance(1, "parenstr") {
		return &xast.Group{X: &xast.Str{S: g.pick(cmpStrLits, "slit")}}
	}
	if g.chance(2, "numberishlit") {
		return &xast.Str{S: litSafe(Numberish(g.T, "slit"))}
	}
	return &xast.Str{S: g.pick(cmpStrLits, "slit")}
}

// BoolOperand draws a boolean-typed operand.
func (g *G) BoolOperand(ctx *xdoc.Node) xast.Expr {
	switch g.intn(4, "boolkind") {
	case 0:
		return &xast.Call{Name: "true"}
	case 1:
		return &xast.Call{Name: "false"}
	case 2:
		return &xast.Call{Name: "not", Args: []xast.Expr{g.FlatPath(xref.NodeSet{ctx})}}
	}
	return &xast.Call{Name: "boolean", Args: []xast.Expr{g.anyOperand(ctx, false)}}
}

// nearPairs: neighbouring doubles, and sums and products that miss the "obvious" decimal by an ulp.
var nearPairs = [][2]string{
	{"0.1 + 0.2", "0.3"}, {"0.30000000000000004", "0.3"}, {"1", "1.0000000000000002"}, {"9007199254740992", "9007199254740994"},
	{"9007199254740992", "9007199254740993"}, {"1.1 * 1.1", "1.21"}, {"0.1 * 3", "0.3"}, {"100", "100.00000000000001"}, {"0.5 + 0.25", "0.75"}, {"4.35 * 100", "435"},
}

// Comparison draws one comparison from exactly the operand matrix C07 states.
func (g *G) Comparison(ctx *xdoc.Node) *xast.Bin {
	ns := func() xast.Expr { return g.FlatArg(xref.NodeSet{ctx}) }
	flip := func(b *xast.Bin) *xast.Bin {
		if rapid.Bool().Draw(g.T, "flipcmp") {
			b.L, b.R = b.R, b.L
		}
		return b
	}
	switch g.intn(10, "cmpkind") {
	case 0, 1:
		if g.chance(2, "neighbours") {
			// two numbers one or two ulps apart (or the same number reached two ways): equal
			// means equal as IEEE 754 doubles, nothing more generous and nothing less
			pair := nearPairs[g.intn(len(nearPairs), "nearpair")]
			mk := func(t string) xast.Expr {
				if strings.ContainsAny(t, "+*") {
					parts := strings.FieldsFunc(t, func(r rune) bool { return r == '+' || r == '*' })
					op := "+"
					if strings.Contains(t, "*") {
						op = "*"
					}
					return &xast.Bin{Op: op, L: &xast.Num{Lit: strings.TrimSpace(parts[0])}, R: &xast.Num{Lit: strings.TrimSpace(parts[1])}}
				}
				return &xast.Num{Lit: t}
			}
			return flip(&xast.Bin{Op: g.pick(cmpOps, "op"), L: mk(pair[0]), R: mk(pair[1])})
		}
		return &xast.Bin{Op: g.pick(cmpOps, "op"), L: g.NumOperand(ctx), R: g.NumOperand(ctx)}
	case 2, 3, 4:
		return flip(&xast.Bin{Op: g.pick(cmpOps, "op"), L: ns(), R: g.NumOperand(ctx)})
	case 5:
		return &xast.Bin{Op: g.pick(eqOps, "op"), L: g.StrOperand(ctx), R: g.StrOperand(ctx)}
	case 6, 7:
		return flip(&xast.Bin{Op: g.pick(eqOps, "op"), L: ns(), R: g.StrOperand(ctx)})
	default:
		l, r := ns(), ns()
		if g.chance(4, "bigset") {
			// a large operand: the pairing loops must look at every pair, however late it comes
			big := &xast.Path{Abs: true, Steps: []interface{}{xast.DSlash{}, &xast.Step{Axis: g.pick([]string{"child", "child", "attribute"}, "bigaxis"), Test: xast.NodeTest{Kind: g.pick([]string{"node", "wild", "wild"}, "bigtest")}, Abbr: true}}}
			if rapid.Bool().Draw(g.T, "bigside") {
				l = big
			} else {
				r = big
			}
		}
		return &xast.Bin{Op: g.pick(eqOps, "op"), L: l, R: r}
	}
}

func (g *G) anyOperand(ctx *xdoc.Node, allowCmp bool) xast.Expr {
	n := 4
	if allowCmp {
		n = 6
	}
	switch g.intn(n, "anykind") {
	case 0:
		return g.NumOperand(ctx)
	case 1:
		return g.StrOperand(ctx)
	case 2:
		if g.chance(3, "generalpath") {
			// as an operand of and/or/boolean()/not() a node-set only matters as empty or not: any path will do,
			// including those that move the evaluation cursor (following::, preceding::, nested predicates)
			return g.RelPath(xref.NodeSet{ctx}, 2, 1)
		}
		return g.FlatPath(xref.NodeSet{ctx})
	case 3:
		switch g.intn(3, "b") {
		case 0:
			return &xast.Call{Name: "true"}
		case 1:
			return &xast.Call{Name: "false"}
		}
		return &xast.Call{Name: "not", Args: []xast.Expr{g.FlatPath(xref.NodeSet{ctx})}}
	}
	return g.Comparison(ctx)
}

// ErrOperand is an operand whose evaluation raises the package's deliberate
// argument-type error; it may only stand where short-circuit skips it.
func ErrOperand() xast.Expr {
	return &xast.Call{Name: "contains", Args: []xast.Expr{&xast.Num{Lit: "1"}, &xast.Num{Lit: "1"}}}
}

// BoolExpr draws a C07 expression; shortCircuit reports whether it contains an
// error operand shielded by and/or.
func (g *G) BoolExpr(ctx *xdoc.Node, depth int) (e xast.Expr, shortCircuit bool) {
	switch k := g.intn(10, "bekind"); {
	case k <= 3 || depth <= 0:
		return g.Comparison(ctx), false
	case k <= 6:
		op := g.pick([]string{"and", "or"}, "andor")
		l, sc := g.anyOrBool(ctx, depth-1)
		// the right operand may be an error operand when the left decides the result
		if lv, err := xref.Eval(g.Env, &xast.Call{Name: "boolean", Args: []xast.Expr{l}}, ctx); err == nil && g.chance(3, "shield") {
			if b := lv.(bool); (op == "or" && b) || (op == "and" && !b) {
				return &xast.Bin{Op: op, L: l, R: ErrOperand()}, true
			}
		}
		r, sc2 := g.anyOrBool(ctx, depth-1)
		return &xast.Bin{Op: op, L: l, R: r}, sc || sc2
	case k == 7:
		if rapid.Bool().Draw(g.T, "notns") {
			return &xast.Call{Name: "not", Args: []xast.Expr{g.FlatPath(xref.NodeSet{ctx})}}, false
		}
		x, sc := g.BoolExpr(ctx, depth-1)
		return &xast.Call{Name: "not", Args: []xast.Expr{x}}, sc
	case k == 8:
		return &xast.Call{Name: "boolean", Args: []xast.Expr{g.anyOperand(ctx, true)}}, false
	}
	return g.BoolOperand(ctx), false
}

func (g *G) anyOrBool(ctx *xdoc.Node, depth int) (xast.Expr, bool) {
	if g.chance(5, "nested") {
		return g.BoolExpr(ctx, depth)
	}
	return g.anyOperand(ctx, true), false
}

// ---------------------------------------------------------------------------
// C08: arithmetic

// NumDoc is the document shape for C08: numeric values (and a few non-numeric ones for NaN).
func NumDoc() DocOpts {
	o := DefaultDoc()
	o.Texts = []string{"1", "2", "10", "-3", "0.5", "7", ".5", "12.50", "t", "100", " 4 ", "1e2", "\n6\n", ".125", "9007199254740992", "4611686018427387904", "-9223372036854775808"}
	o.AtVals = []string{"1", "2", "3", "-1", "0", "", "x", "2.5"}
	o.MaxDepth = 3
	o.MaxFan = 4
	return o
}

var arithLits = []string{"0", "1", "2", "3", "7", "10", "007", "1.", ".5", "12.50", "0.1", "0.2", "1234567.125", "0.12345678901234567", "99999", "1000000", "0.0001", "0.00001", "3.0", ".125", ".75", ".0625", "0.333", "10.0625",
	"18446744073709551616", "99999999999999999999", "123456789012345678901", "0.1234567890123456789012345678901", "18446744073709551616.5"}
var intLits = []string{"0", "1", "2", "3", "5", "7", "10", "12", "1000000007", "4294967296", "9007199254740993", "255",
	// 19, 20, 21 and 25 digits: around 2^63, 2^64 and beyond every integer type
	"9223372036854775808", "18446744073709551615", "18446744073709551616", "99999999999999999999", "100000000000000000000", "1234567890123456789012345"}
var posIntLits = []string{"1", "2", "3", "5", "7", "10", "256", "65536", "1000000007"}

func allNumeric(ns xref.NodeSet) bool {
	for _, n := range ns {
		if !xref.IsXPathNumber(xdoc.StringValue(n)) {
			return false
		}
	}
	return true
}

// NonNegInt draws an expression whose value is a non-negative integer.
func (g *G) NonNegInt(ctx *xdoc.Node) xast.Expr {
	switch g.intn(4, "nnikind") {
	case 0:
		return &xast.Call{Name: "count", Args: []xast.Expr{g.FlatPath(xref.NodeSet{ctx})}}
	case 1:
		return g.strLenOrCount(ctx)
	}
	return &xast.Num{Lit: g.pick(intLits, "ilit")}
}

// Arith draws an arithmetic expression tree of the C08 fragment.
func (g *G) Arith(ctx *xdoc.Node, depth int) xast.Expr {
	base := xref.NodeSet{ctx}
	if depth <= 0 {
		switch g.intn(8, "leaf") {
		case 0:
			return &xast.Call{Name: "count", Args: []xast.Expr{g.FlatArg(base)}}
		case 1:
			// (FlatArg: three in ten filter on their last step - a step that moves the
			// evaluation context about, which the operand next to it must not notice)
			fp := g.FlatArg(base)
			if v, err := xref.Eval(g.Env, fp, ctx); err == nil {
				if ns, ok := v.(xref.NodeSet); ok && allNumeric(ns) {
					return &xast.Call{Name: "sum", Args: []xast.Expr{fp}}
				}
			}
			return &xast.Call{Name: "count", Args: []xast.Expr{fp}}
		case 2:
			return &xast.Call{Name: "number", Args: []xast.Expr{g.FlatArg(base)}}
		case 3:
			if g.chance(5, "numberish") {
				return &xast.Call{Name: "number", Args: []xast.Expr{&xast.Str{S: litSafe(Numberish(g.T, "numstr"))}}}
			}
			return &xast.Call{Name: "number", Args: []xast.Expr{&xast.Str{S: g.pick([]string{"12", " 7 ", "x", "", "1e3", "-2.5", "+1", ".5", "5.", "Infinity", "0x10", "1 2", " \n7\r\n", "\t2", "\n", "3\n"}, "numstr")}}}
		case 4:
			return g.strLenOrCount(ctx)
		}
		if g.chance(4, "randlit") {
			if g.chance(2, "parenrandlit") {
				return &xast.Group{X: &xast.Num{Lit: g.NumLit()}}
			}
			return &xast.Num{Lit: g.NumLit()}
		}
		return &xast.Num{Lit: g.pick(arithLits, "alit")}
	}
	switch g.intn(10, "arith") {
	case 0, 1, 2, 3:
		return &xast.Bin{Op: g.pick([]string{"+", "-", "*", "div"}, "aop"), L: g.Arith(ctx, depth-1), R: g.Arith(ctx, depth-1)}
	case 4:
		return &xast.Bin{Op: "mod", L: g.NonNegInt(ctx), R: &xast.Num{Lit: g.pick(posIntLits, "modr")}}
	case 5:
		x := g.Arith(ctx, depth-1)
		if rapid.Bool().Draw(g.T, "dblneg") {
			return &xast.Neg{X: &xast.Neg{X: x}}
		}
		return &xast.Neg{X: x}
	case 6:
		return &xast.Call{Name: "floor", Args: []xast.Expr{g.Arith(ctx, depth-1)}}
	case 7:
		return &xast.Call{Name: "ceiling", Args: []xast.Expr{g.Arith(ctx, depth-1)}}
	case 8:
		return &xast.Call{Name: "number", Args: []xast.Expr{g.Arith(ctx, depth-1)}}
	}
	return g.Arith(ctx, 0)
}

// NumLit draws a number literal digit by digit: optional integer part (0-4 digits,
// possibly with leading zeros), optional fraction (0-5 digits); forms 12, 12., 12.34, .34.
func (g *G) NumLit() string {
	digits := func(n int, label string) string {
		out := ""
		for i := 0; i < n; i++ {
			out += string(rune('0' + g.intn(10, label)))
		}
		return out
	}
	ip := digits(g.intn(5, "intdigits"), "idigit")
	fp := digits(g.intn(6, "fracdigits"), "fdigit")
	switch {
	case ip == "" && fp == "":
		return "0"
	case fp == "":
		if g.chance(2, "trailingdot") {
			return ip + "."
		}
		return ip
	}
	return ip + "." + fp
}

// FiniteSmall reports whether string() of v is claimed by C08.
func FiniteSmall(v float64) bool {
	return !math.IsNaN(v) && !math.IsInf(v, 0) && math.Abs(v) < 1e6
}

// ---------------------------------------------------------------------------
// C09: string functions

// StrDoc is the document shape for C09.
func StrDoc() DocOpts {
	o := DefaultDoc()
	o.Texts = []string{"a", "ab", "abc", "a b", "  a  b ", "aab", "12", "a-b", "AbC", "\t", "b\na"}
	o.AtVals = []string{"a", "", "ab", " ", "b", "a-b"}
	o.MaxDepth = 3
	o.MaxFan = 3
	return o
}

var strPool = []string{"", " ", "a", "ab", "abc", "a b", "  a  b ", "\t", "a\nb", "aab", "12", "-", "a-b", "AbC", "b", "c", "abcabc", "   ", "it's", "a\"b", "'", "\"", "a\\", "\\",
	// lengths around 16, 32, 64 and 256 bytes
	"abcdefghijklmnop", "abcdefghijklmnopq", strings.Repeat("ab ", 11), strings.Repeat("x", 64) + "y", strings.Repeat("abc-", 64) + "z"}

// SubstrNum draws a start/length argument: -3 .. 9 in steps of 0.5.
func (g *G) SubstrNum() xast.Expr {
	if g.intn(12, "hugenum") == 11 {
		// finite arguments far beyond the string and beyond every integer type
		lit := &xast.Num{Lit: g.pick([]string{"2147483648", "4294967296", "9223372036854775807", "9223372036854775808", "18446744073709551616", "1000000000000000000000", "0.0000001"}, "hugelit")}
		if g.chance(3, "hugeneg") {
			return &xast.Neg{X: lit}
		}
		return lit
	}
	k := rapid.IntRange(-6, 18).Draw(g.T, "halfsteps")
	neg := k < 0
	if neg {
		k = -k
	}
	lit := []string{"0", "0.5", "1", "1.5", "2", "2.5", "3", "3.5", "4", "4.5", "5", "5.5", "6", "6.5", "7", "7.5", "8", "8.5", "9"}[k]
	if neg {
		return &xast.Neg{X: &xast.Num{Lit: lit}}
	}
	return &xast.Num{Lit: lit}
}

// StrArg draws a string-typed argument; when nodeOK, it may be a flat node-set
// (taken as the string-value of its first node).
func (g *G) StrArg(ctx *xdoc.Node, depth int, nodeOK bool) xast.Expr {
	if nodeOK && g.chance(3, "nodearg") {
		return g.FlatArg(xref.NodeSet{ctx})
	}
	if depth <= 0 || g.chance(4, "strleaf") {
		return &xast.Str{S: g.pick(strPool, "spool"), DQ: g.chance(2, "dq")}
	}
	return g.StrExpr(ctx, depth-1)
}

// StrExpr draws a string-valued function application.
func (g *G) StrExpr(ctx *xdoc.Node, depth int) xast.Expr {
	switch g.intn(10, "strexpr") {
	case 0:
		n := 1 + g.CountOf(3, "nconcat")
		c := &xast.Call{Name: "concat"}
		for i := 0; i < n; i++ {
			c.Args = append(c.Args, g.StrArg(ctx, depth, true))
		}
		return c
	case 1:
		return &xast.Call{Name: g.pick([]string{"substring-before", "substring-after"}, "sbsa"), Args: []xast.Expr{g.StrArg(ctx, depth, true), g.StrArg(ctx, depth, true)}}
	case 2, 3:
		c := &xast.Call{Name: "substring", Args: []xast.Expr{g.StrArg(ctx, depth, true), g.SubstrNum()}}
		if rapid.Bool().Draw(g.T, "sub3") {
			c.Args = append(c.Args, g.SubstrNum())
		}
		return c
	case 4:
		if g.chance(2, "ns0") {
			return &xast.Call{Name: "normalize-space"}
		}
		return &xast.Call{Name: "normalize-space", Args: []xast.Expr{g.StrArg(ctx, depth, true)}}
	case 5:
		return &xast.Call{Name: "translate", Args: []xast.Expr{g.StrArg(ctx, depth, true), &xast.Str{S: g.pick([]string{"abc", "a", "", "ab-", "aab", " \t"}, "trfrom")}, &xast.Str{S: g.pick([]string{"ABC", "", "x", "xy", " "}, "trto")}}}
	case 6:
		return &xast.Call{Name: "lower-case", Args: []xast.Expr{g.StrArg(ctx, depth, true)}}
	case 7:
		return &xast.Call{Name: "string-join", Args: []xast.Expr{g.FlatArg(xref.NodeSet{ctx}), g.StrArg(ctx, 0, false)}}
	case 8:
		return &xast.Call{Name: "string", Args: []xast.Expr{g.StrArg(ctx, depth, true)}}
	}
	return &xast.Str{S: g.pick(strPool, "spool")}
}

// StrTop draws a top-level C09 expression (string, boolean or number valued).
func (g *G) StrTop(ctx *xdoc.Node, depth int) xast.Expr {
	switch g.intn(10, "strtop") {
	case 0, 1:
		return &xast.Call{Name: g.pick([]string{"contains", "starts-with", "ends-with"}, "cse"), Args: []xast.Expr{g.StrArg(ctx, depth, true), g.StrArg(ctx, depth, false)}}
	case 2:
		return &xast.Call{Name: "string-length", Args: []xast.Expr{g.StrArg(ctx, depth, true)}}
	}
	return g.StrExpr(ctx, depth)
}

// Numberish draws a string from the neighbourhood of the XPath Number grammar:
// padding (XML white space, or characters that only Unicode calls space), sign,
// digits (ASCII, or digits of other scripts), fraction, and suffixes that other
// number grammars accept (exponent, hex, underscores, Inf/NaN spellings). About
// half of the strings are XPath numbers, the rest must convert to NaN.
func Numberish(t *rapid.T, label string) string {
	xmlWS := []string{"", "", "", " ", "\t", "\n", "\r", "  ", " \n"}
	otherWS := []string{"\v", "\f", "\u00a0", "\u0085", "\u3000", "\u2003", "\ufeff", "\u200b"}
	pad := func(l string) string {
		if rapid.IntRange(0, 5).Draw(t, l+"other") == 0 {
			return rapid.SampledFrom(otherWS).Draw(t, l)
		}
		return rapid.SampledFrom(xmlWS).Draw(t, l)
	}
	sign := rapid.SampledFrom([]string{"", "", "", "", "-", "-", "+", "--", "- ", "\u2212"}).Draw(t, label+"sign")
	var body string
	switch rapid.IntRange(0, 11).Draw(t, label+"body") {
	case 0, 1, 2:
		body = rapid.SampledFrom([]string{"0", "1", "2", "7", "10", "12", "007", "100", "4294967296", "00", "9223372036854775808", "9999999999999999999", "18446744073709551616", "123456789012345678901"}).Draw(t, label+"int")
	case 3, 4:
		body = rapid.SampledFrom([]string{"1", "0", "12", ""}).Draw(t, label+"ip") + "." + rapid.SampledFrom([]string{"5", "0", "25", "125", "", "50"}).Draw(t, label+"fp")
	case 5:
		body = rapid.SampledFrom([]string{"1e3", "1E3", "1e-2", "1.5e2", "1e", "e3", "1p3"}).Draw(t, label+"exp")
	case 6:
		body = rapid.SampledFrom([]string{"0x10", "0X1F", "0x1p4", "0b11", "0o17", "1_000", "1,5", "1 2", "1.2.3", "1..2"}).Draw(t, label+"alt")
	case 7:
		body = rapid.SampledFrom([]string{"Inf", "inf", "Infinity", "infinity", "NaN", "nan", "INF"}).Draw(t, label+"special")
	case 8:
		body = rapid.SampledFrom([]string{"١٢", "１２", "१", "²", "①", "1٠"}).Draw(t, label+"script")
	case 9:
		body = rapid.SampledFrom([]string{"", ".", "-", "t", "x1", "1x", "1f", "1d", "1L"}).Draw(t, label+"junk")
	default:
		body = rapid.SampledFrom([]string{"3", "5", "2.5", "10", ".5", "7."}).Draw(t, label+"plain")
	}
	return pad(label+"lpad") + sign + body + pad(label+"rpad")
}

// WithNumberish returns o with k drawn Numberish strings added to the text and
// attribute value pools.
func WithNumberish(t *rapid.T, o DocOpts, k int) DocOpts {
	o.Texts = append([]string{}, o.Texts...)
	o.AtVals = append([]string{}, o.AtVals...)
	for i := 0; i < k; i++ {
		o.Texts = append(o.Texts, Numberish(t, "ntext"))
		o.AtVals = append(o.AtVals, Numberish(t, "naval"))
	}
	return o
}

// litSafe makes a drawn string usable inside an XPath literal.
func litSafe(s string) string {
	return strings.NewReplacer("'", "", "\"", "").Replace(s)
}

// strLenOrCount draws string-length(flat path) when the string-value it measures is
// ASCII (the engine counts bytes; C09 claims ASCII arguments only) and count(flat
// path) otherwise.
func (g *G) strLenOrCount(ctx *xdoc.Node) xast.Expr {
	fp := g.FlatPath(xref.NodeSet{ctx})
	if v, err := xref.Eval(g.Env, fp, ctx); err == nil {
		ascii := true
		for _, r := range xref.ToStr(v) {
			if r >= 0x80 {
				ascii = false
			}
		}
		if ascii {
			return &xast.Call{Name: "string-length", Args: []xast.Expr{fp}}
		}
	}
	return &xast.Call{Name: "count", Args: []xast.Expr{fp}}
}
