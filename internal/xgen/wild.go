package xgen

import (
	"pgregory.net/rapid"

	"verif/internal/xast"
)

// Wild generation: syntactically valid, semantically unconstrained expressions
// - any expression in any operand, argument, predicate or path-start position,
// any arity. Used where the oracle does not need to know the value (C04, C05,
// C15): ill-typed expressions are welcome there.

// WildOpts tunes the wild generator.
type WildOpts struct {
	Vars      bool // allow $x
	AnyArity  bool // draw arities 0..3 regardless of the function's signature
	NSAxis    bool // allow the namespace axis
	Regex     bool // allow matches()/replace()
	MaxPreds  int
	ExtraFunc []string
}

// Funcs lists every function name the engine knows, with a typical arity.
var Funcs = []struct {
	Name  string
	Arity int
}{
	{"boolean", 1}, {"not", 1}, {"true", 0}, {"false", 0},
	{"number", 1}, {"sum", 1}, {"count", 1}, {"floor", 1}, {"ceiling", 1}, {"round", 1},
	{"string", 1}, {"concat", 2}, {"contains", 2}, {"starts-with", 2}, {"ends-with", 2},
	{"substring", 3}, {"substring-before", 2}, {"substring-after", 2}, {"string-length", 1},
	{"normalize-space", 1}, {"translate", 3}, {"lower-case", 1}, {"string-join", 2},
	{"name", 1}, {"local-name", 1}, {"namespace-uri", 1}, {"last", 0}, {"position", 0},
	{"reverse", 1}, {"matches", 2}, {"replace", 3},
}

// WildExpr draws an unconstrained expression of nesting depth <= depth.
func (g *G) WildExpr(depth int, o WildOpts) xast.Expr {
	if depth <= 0 {
		return g.wildLeaf(o)
	}
	switch g.intn(20, "wild") {
	case 0, 1, 2, 3:
		return g.WildPath(depth, o)
	case 4:
		// filter expression (primary)[pred]...
		var prim xast.Expr = &xast.Group{X: g.WildExpr(depth-1, o)}
		switch g.intn(8, "wprim") {
		case 0:
			if o.Vars {
				prim = &xast.Var{Name: "x"}
			}
		case 1:
			prim = g.wildCall(depth-1, o)
		case 2:
			prim = &xast.Str{S: "a"}
		case 3:
			prim = &xast.Num{Lit: "1"}
		}
		f := &xast.Filter{Primary: prim}
		n := 1 + g.intn(2, "wnfp")
		for i := 0; i < n; i++ {
			f.Preds = append(f.Preds, g.WildExpr(depth-1, o))
		}
		if g.chance(4, "wtail") {
			return &xast.Path{Start: f, Steps: []interface{}{g.wildStep(depth-1, o)}}
		}
		return f
	case 5:
		return &xast.Bin{Op: "|", L: g.wildUnionOperand(depth, o), R: g.wildUnionOperand(depth, o)}
	case 6, 7, 8:
		return &xast.Bin{Op: g.pick([]string{"=", "!=", "<", "<=", ">", ">="}, "wcmp"), L: g.WildExpr(depth-1, o), R: g.WildExpr(depth-1, o)}
	case 9, 10:
		return &xast.Bin{Op: g.pick([]string{"+", "-", "*", "div", "mod"}, "wari"), L: g.WildExpr(depth-1, o), R: g.WildExpr(depth-1, o)}
	case 11, 12:
		return &xast.Bin{Op: g.pick([]string{"and", "or"}, "wlog"), L: g.WildExpr(depth-1, o), R: g.WildExpr(depth-1, o)}
	case 13:
		return &xast.Neg{X: g.WildExpr(depth-1, o)}
	case 14, 15, 16, 17:
		return g.wildCall(depth, o)
	case 18:
		return &xast.Group{X: g.WildExpr(depth-1, o)}
	}
	return g.wildLeaf(o)
}

func (g *G) wildUnionOperand(depth int, o WildOpts) xast.Expr {
	// the grammar wants path expressions here; a parenthesised anything is one too
	if g.chance(7, "wuop") {
		return g.WildPath(depth-1, o)
	}
	return &xast.Group{X: g.WildExpr(depth-1, o)}
}

func (g *G) wildLeaf(o WildOpts) xast.Expr {
	switch g.intn(10, "wleaf") {
	case 0, 1:
		return &xast.Num{Lit: g.pick([]string{"0", "1", "2", "3", "1.5", "10"}, "wnum")}
	case 2, 3:
		return &xast.Str{S: g.pick([]string{"", "a", "1", "x y", "t", "(", "abc", "é", "中文x", "a\u00a0", "ab", "1e3", " 2 "}, "wstr")}
	case 4:
		if o.Vars {
			return &xast.Var{Name: g.pick([]string{"x", "y"}, "wvar")}
		}
		return &xast.Call{Name: "position"}
	case 5:
		return &xast.Call{Name: g.pick([]string{"true", "false", "last", "position"}, "wfn0")}
	}
	return g.WildPath(0, o)
}

func (g *G) wildStep(depth int, o WildOpts) *xast.Step {
	axes := g.axes()
	if o.NSAxis {
		axes = append(append([]string{}, axes...), "namespace")
	}
	ax := axes[g.intn(len(axes), "waxis")]
	ts := g.testsFor(ax)
	s := &xast.Step{Axis: ax, Test: ts[g.intn(len(ts), "wtest")], Abbr: rapid.Bool().Draw(g.T, "wabbr")}
	if depth > 0 {
		maxp := o.MaxPreds
		if maxp == 0 {
			maxp = 2
		}
		n := g.intn(maxp+1, "wnpred")
		if !g.chance(4, "whaspred") {
			n = 0
		}
		for i := 0; i < n; i++ {
			s.Preds = append(s.Preds, g.WildExpr(depth-1, o))
		}
	}
	return s
}

// WildPath draws a location path whose steps carry unconstrained predicates.
func (g *G) WildPath(depth int, o WildOpts) *xast.Path {
	p := &xast.Path{Abs: g.chance(3, "wabs")}
	if depth > 0 && !p.Abs && g.chance(1, "wstart") {
		// path starting from a primary expression: (expr)/step, f(x)/step, $v/step
		switch g.intn(3, "wstartkind") {
		case 0:
			p.Start = &xast.Group{X: g.WildExpr(depth-1, o)}
		case 1:
			p.Start = g.wildCall(depth-1, o)
		default:
			if o.Vars {
				p.Start = &xast.Var{Name: "x"}
			} else {
				p.Start = &xast.Group{X: g.WildPath(depth-1, o)}
			}
		}
	}
	n := 1 + g.intn(3, "wnsteps")
	for i := 0; i < n; i++ {
		if (i > 0 || p.Abs || p.Start != nil) && g.chance(2, "wds") {
			p.Steps = append(p.Steps, xast.DSlash{})
		}
		if i > 0 && depth > 0 && g.chance(1, "wseq") {
			q := &xast.SeqStep{}
			k := 2 + g.intn(2, "wnalts")
			for j := 0; j < k; j++ {
				q.Alts = append(q.Alts, g.wildStep(depth-1, o))
			}
			p.Steps = append(p.Steps, q)
			continue
		}
		p.Steps = append(p.Steps, g.wildStep(depth, o))
	}
	return p
}

func (g *G) wildCall(depth int, o WildOpts) xast.Expr {
	f := Funcs[g.intn(len(Funcs), "wfn")]
	if !o.Regex && (f.Name == "matches" || f.Name == "replace") {
		f = Funcs[0]
	}
	ar := f.Arity
	switch {
	case o.AnyArity && g.chance(3, "warity"):
		ar = g.intn(4, "wnargs")
	case g.chance(2, "woptarg"):
		// optional-argument forms: f() for the context-node functions, one more/less elsewhere
		switch f.Name {
		case "string", "number", "name", "local-name", "namespace-uri", "normalize-space", "string-length", "boolean":
			ar = 0
		case "substring":
			ar = 2
		case "concat":
			ar = 3
		}
	}
	c := &xast.Call{Name: f.Name}
	for i := 0; i < ar; i++ {
		c.Args = append(c.Args, g.WildExpr(depth-1, o))
	}
	return c
}
