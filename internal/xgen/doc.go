// Package xgen holds the rapid generators: documents and expression fragments.
// Every random choice is a rapid draw so that failing cases shrink and replay.
package xgen

import (
	"github.com/antchfx/xpath"
	"pgregory.net/rapid"

	"verif/internal/xdoc"
)

// DocOpts parameterises the document generator.
type DocOpts struct {
	MaxDepth int
	MaxFan   int
	ElNames  []string
	AtNames  []string
	Texts    []string // text and comment values
	AtVals   []string
	MaxAttrs int
	// PElem is the share (out of 10) of element children; the rest is split 2:1 between text and comment.
	PElem int
	// ChainFan makes most elements have exactly one element child (long chains).
	ChainFan bool
	// WideFan, when > 0, is the fan-out of the two levels below the document
	// element (sibling indexes of two digits).
	BroadFan int // > 0: the document element has 17..BroadFan children
	// TopComments lets the root node have comment children next to the document element.
	TopComments bool
	WideFan     int
	// NS, when non-nil, decorates elements/attributes with prefixes and namespace URIs.
	NS *NSOpts
}

// NSOpts drives namespace decoration (C14).
type NSOpts struct {
	Prefixes []string // candidate prefixes ("" = none/default)
	URIs     []string // candidate namespace URIs ("" = no namespace)
}

// Default alphabets.
var (
	ElNames3 = []string{"a", "b", "c"}
	ElNames2 = []string{"a", "b"}
	AtNames2 = []string{"x", "y"}
	Texts    = []string{"1", "2", "t", "10", "x y", "it's", "9999999999999999999", ""} // the last: 19 digits, above the largest int64
	AtVals   = []string{"1", "2", "t", "", "18446744073709551616"}
)

// DefaultDoc is the general-purpose document shape.
func DefaultDoc() DocOpts {
	return DocOpts{MaxDepth: 4, MaxFan: 3, ElNames: ElNames3, AtNames: AtNames2, Texts: Texts, AtVals: AtVals, MaxAttrs: 2, PElem: 7, TopComments: true}
}

// Doc draws a document.
func Doc(t *rapid.T, o DocOpts) *xdoc.Doc {
	root := &xdoc.Node{Kind: xpath.RootNode}
	var build func(p *xdoc.Node, d int)
	build = func(p *xdoc.Node, d int) {
		n := 1
		if p.Kind != xpath.RootNode {
			n = rapid.IntRange(0, o.MaxFan).Draw(t, "fan")
			if o.ChainFan && d > 2 && d < o.MaxDepth {
				n = 1 + rapid.IntRange(0, 9).Draw(t, "chainfan")/9
			}
			if o.WideFan > 0 && d <= 3 {
				n = rapid.IntRange(0, o.WideFan).Draw(t, "widefan")
			}
			if o.BroadFan > 0 && d == 1 {
				n = rapid.IntRange(17, o.BroadFan).Draw(t, "broadfan")
			}
		}
		for i := 0; i < n; i++ {
			var k *xdoc.Node
			ty := 0
			if p.Kind != xpath.RootNode {
				ty = rapid.IntRange(0, 9).Draw(t, "kind")
			}
			switch {
			case ty < o.PElem:
				k = &xdoc.Node{Kind: xpath.ElementNode, Local: rapid.SampledFrom(o.ElNames).Draw(t, "el")}
				if o.NS != nil {
					k.Prefix = rapid.SampledFrom(o.NS.Prefixes).Draw(t, "pfx")
					k.NS = rapid.SampledFrom(o.NS.URIs).Draw(t, "uri")
					if k.Prefix != "" && k.NS == "" {
						k.NS = o.NS.URIs[len(o.NS.URIs)-1] // a prefixed name always has a namespace
					}
				}
				na := 0
				if o.MaxAttrs > 0 && len(o.AtNames) > 0 {
					na = rapid.IntRange(0, o.MaxAttrs).Draw(t, "nattr")
				}
				used := map[string]bool{}
				for j := 0; j < na; j++ {
					a := &xdoc.Node{Kind: xpath.AttributeNode, Local: o.AtNames[(j)%len(o.AtNames)], Value: rapid.SampledFrom(o.AtVals).Draw(t, "aval")}
					if rapid.IntRange(0, 5).Draw(t, "attr-like-element") == 5 {
						a.Local = k.Local // an attribute named like its element: <a a='1'>
					}
					if o.NS != nil {
						// with prefixes in play the same local name may occur twice (x and p:x)
						a.Local = rapid.SampledFrom(o.AtNames).Draw(t, "alocal")
					}
					if o.NS != nil {
						a.Prefix = rapid.SampledFrom(o.NS.Prefixes).Draw(t, "apfx")
						if a.Prefix != "" {
							if a.Prefix == k.Prefix {
								a.NS = k.NS // one URI per prefix per element
							} else {
								a.NS = rapid.SampledFrom(o.NS.URIs).Draw(t, "auri")
								if a.NS == "" {
									a.NS = o.NS.URIs[len(o.NS.URIs)-1]
								}
							}
						}
					}
					if used[a.Prefix+":"+a.Local] {
						continue
					}
					// two attributes with one prefix on one element share its URI
					for _, b := range k.Attrs {
						if b.Prefix == a.Prefix && a.Prefix != "" {
							a.NS = b.NS
						}
					}
					used[a.Prefix+":"+a.Local] = true
					k.Attrs = append(k.Attrs, a)
				}
			case ty < o.PElem+(10-o.PElem+1)*2/3:
				k = &xdoc.Node{Kind: xpath.TextNode, Value: rapid.SampledFrom(o.Texts).Draw(t, "text")}
			default:
				k = &xdoc.Node{Kind: xpath.CommentNode, Value: rapid.SampledFrom(o.Texts).Draw(t, "comment")}
			}
			k.Parent = p
			p.Kids = append(p.Kids, k)
			if k.Kind == xpath.ElementNode && d < o.MaxDepth && !(o.WideFan > 0 && d >= 3) {
				build(k, d+1)
			}
		}
	}
	build(root, 1)
	// one document in eight has comments next to the document element: the root node then
	// has several children, and the document element has siblings
	if o.TopComments && rapid.IntRange(0, 7).Draw(t, "topcomments") == 7 {
		val := func(l string) string { return rapid.SampledFrom(o.Texts).Draw(t, l) }
		switch rapid.IntRange(0, 2).Draw(t, "topwhere") {
		case 0:
			root.Kids = append([]*xdoc.Node{{Kind: xpath.CommentNode, Value: val("topc")}}, root.Kids...)
		case 1:
			root.Kids = append(root.Kids, &xdoc.Node{Kind: xpath.CommentNode, Value: val("topc")})
		default:
			root.Kids = append(append([]*xdoc.Node{{Kind: xpath.CommentNode, Value: val("topc1")}}, root.Kids...), &xdoc.Node{Kind: xpath.CommentNode, Value: val("topc2")})
		}
	}
	return xdoc.NewDoc(root)
}

// Context draws a context node: the root with probability rootShare/10, else uniform over all nodes.
func Context(t *rapid.T, d *xdoc.Doc, rootShare int) *xdoc.Node {
	if rapid.IntRange(0, 9).Draw(t, "ctxroot") < rootShare {
		return d.Root
	}
	return d.Nodes[rapid.IntRange(0, len(d.Nodes)-1).Draw(t, "ctx")]
}

// MutateDoc returns a copy of d with 1-3 small edits (a subtree dropped, an
// element duplicated next to itself, a value or a name changed): a second
// document on which the same expression from the "same" context node gives a
// comparable but different answer.
func MutateDoc(t *rapid.T, d *xdoc.Doc, o DocOpts) *xdoc.Doc {
	var clone func(n *xdoc.Node) *xdoc.Node
	clone = func(n *xdoc.Node) *xdoc.Node {
		c := &xdoc.Node{Kind: n.Kind, Prefix: n.Prefix, Local: n.Local, NS: n.NS, Value: n.Value}
		for _, a := range n.Attrs {
			c.Attrs = append(c.Attrs, clone(a))
		}
		for _, k := range n.Kids {
			c.Kids = append(c.Kids, clone(k))
		}
		return c
	}
	nd := xdoc.NewDoc(clone(d.Root))
	edits := rapid.IntRange(1, 3).Draw(t, "nedits")
	for e := 0; e < edits; e++ {
		if len(nd.Nodes) < 3 {
			break
		}
		n := nd.Nodes[rapid.IntRange(2, len(nd.Nodes)-1).Draw(t, "editnode")]
		if n.Kind == xpath.AttributeNode {
			n.Value = rapid.SampledFrom(o.AtVals).Draw(t, "newaval")
			continue
		}
		p := n.Parent
		switch rapid.IntRange(0, 3).Draw(t, "editkind") {
		case 0: // drop the subtree
			p.Kids = append(append([]*xdoc.Node{}, p.Kids[:n.Idx]...), p.Kids[n.Idx+1:]...)
		case 1: // duplicate it next to itself
			dup := clone(n)
			kids := append([]*xdoc.Node{}, p.Kids[:n.Idx+1]...)
			kids = append(kids, dup)
			p.Kids = append(kids, p.Kids[n.Idx+1:]...)
		case 2: // change a value or a name
			if n.Kind == xpath.ElementNode {
				n.Local = rapid.SampledFrom(o.ElNames).Draw(t, "newname")
			} else {
				n.Value = rapid.SampledFrom(o.Texts).Draw(t, "newtext")
			}
		default: // add a child element
			if n.Kind == xpath.ElementNode {
				n.Kids = append(n.Kids, &xdoc.Node{Kind: xpath.ElementNode, Local: rapid.SampledFrom(o.ElNames).Draw(t, "addname")})
			}
		}
		nd = xdoc.NewDoc(nd.Root)
	}
	return nd
}

// Shape varies the document shape: mostly as given, sometimes deep and narrow
// (7 levels, fan-out 2), sometimes wide (up to 13 siblings on two levels, i.e.
// two-digit sibling positions). Returns the label of the shape drawn.
func Shape(t *rapid.T, o *DocOpts) string {
	switch rapid.IntRange(0, 11).Draw(t, "shape") {
	case 10:
		// a long chain: 25 levels, fan-out 1-2
		o.MaxDepth, o.MaxFan, o.ChainFan = 25, 2, true
		return "doc:chain"
	case 11:
		// elements with up to a dozen attributes
		o.AtNames = []string{"x", "y", "z", "k", "id", "a", "b", "c", "n", "m", "p", "q"}
		o.MaxAttrs = 12
		return "doc:many-attributes"
	case 0:
		o.MaxDepth, o.MaxFan = 7, 2
		return "doc:deep"
	case 2:
		// one element with 17..40 children (buffers of 16 and 32 entries end inside), small below
		o.BroadFan, o.MaxDepth, o.MaxFan = 40, 3, 2
		if o.MaxAttrs > 1 {
			o.MaxAttrs = 1
		}
		return "doc:broad"
	case 1:
		o.WideFan = 13
		if o.MaxAttrs > 1 {
			o.MaxAttrs = 1
		}
		return "doc:wide"
	}
	return "doc:regular"
}

// Shaped returns o unchanged three times out of four and otherwise re-shaped by
// Shape (wide, deep, a chain of 25 levels, many attributes); the label says which.
func Shaped(t *rapid.T, o DocOpts) (DocOpts, string) {
	if rapid.IntRange(0, 3).Draw(t, "shaped") != 3 {
		return o, "doc:regular"
	}
	label := Shape(t, &o)
	return o, label
}
