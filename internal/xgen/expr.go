package xgen

import (
	"pgregory.net/rapid"
	"strings"

	"verif/internal/xast"
	"verif/internal/xdoc"
	"verif/internal/xref"
)

// G is a generation context: the rapid source, the document the expression
// will be applied to (for reference-guided step choice) and the alphabets.
type G struct {
	T       *rapid.T
	Env     *xref.Env
	ElNames []string
	AtNames []string
	StrLits []string
	// ExtraFuncs lets boolean predicates call normalize-space(), concat() and translate()
	// besides the functions C02 names (for the checks that are not bound to C02's list).
	ExtraFuncs bool
	// NoQuotes keeps quote characters out of the literals taken from document values (C17).
	NoQuotes bool
	NumLits  []string
	// Guide is the probability (out of 10) of drawing a step among those that
	// keep the reference node-set non-empty.
	Guide int
	// AxisPool restricts the axes drawn (nil = all twelve).
	AxisPool []string
	// NonFlatConv lets node-sets that are converted to a string (contains,
	// starts-with arguments) be arbitrary paths instead of flat ones; NonFlatCount
	// does the same for count(). Both are off while the known findings about
	// conversion order / duplicate counting are confirmed present.
	NonFlatConv  bool
	NonFlatCount bool
	// PosLits, when set, replaces the integers drawn for positional predicates.
	PosLits []string
	// Prefixes, when set, are the prefixes name tests are drawn with ("" = unprefixed).
	Prefixes []string
}

// NewG builds a generation context with the default alphabets.
func NewG(t *rapid.T, d *xdoc.Doc) *G {
	// guidance works on a small budget: when it runs out the draw is simply unguided
	return &G{T: t, Env: &xref.Env{Doc: d, Limit: 150000}, ElNames: ElNames3, AtNames: AtNames2,
		StrLits: []string{"1", "2", "t", "10", "x y", "", "a", "b", "it's", "q\"q", "b\\"},
		NumLits: []string{"0", "1", "2", "10", "1.5"}, Guide: 7}
}

func (g *G) intn(n int, label string) int { return rapid.IntRange(0, n-1).Draw(g.T, label) }
func (g *G) chance(outOf10 int, label string) bool {
	return rapid.IntRange(0, 9).Draw(g.T, label) < outOf10
}
func (g *G) pick(ss []string, label string) string { return ss[g.intn(len(ss), label)] }

// CountOf draws how many items of something to generate: 1..small as a rule, and one
// time in twelve a count around the sizes at which fixed buffers, bit masks and small
// counters end (9, 10, 16, 17).
func (g *G) CountOf(small int, label string) int {
	if g.intn(12, label+"-big") == 11 {
		return []int{9, 10, 16, 17}[g.intn(4, label+"-bign")]
	}
	return 1 + g.intn(small, label)
}

func (g *G) axes() []string {
	if g.AxisPool != nil {
		return g.AxisPool
	}
	return xast.Axes
}

// testsFor lists the node tests drawn for an axis (simplest first, for shrinking).
func (g *G) testsFor(axis string) []xast.NodeTest {
	var ts []xast.NodeTest
	prefixes := g.Prefixes
	if len(prefixes) == 0 {
		prefixes = []string{""}
	}
	names := g.ElNames
	if axis == "attribute" {
		// attribute names, and one name that elements carry too (documents have
		// attributes named like their element one time in six)
		names = append(append([]string{}, g.AtNames...), g.ElNames[0])
		for _, n := range g.AtNames {
			if n == g.ElNames[0] {
				names = g.AtNames
			}
		}
	}
	for _, pf := range prefixes {
		for _, n := range names {
			ts = append(ts, xast.NodeTest{Kind: "name", Prefix: pf, Local: n})
		}
	}
	if axis == "attribute" {
		// text()/comment() on the attribute axis are legal and select nothing
		return append(ts, xast.NodeTest{Kind: "wild"}, xast.NodeTest{Kind: "node"}, xast.NodeTest{Kind: "text"}, xast.NodeTest{Kind: "comment"})
	}
	return append(ts, xast.NodeTest{Kind: "wild"}, xast.NodeTest{Kind: "node"}, xast.NodeTest{Kind: "text"}, xast.NodeTest{Kind: "comment"})
}

type stepChoice struct {
	axis string
	test xast.NodeTest
}

// Step draws one predicate-free step. When base is non-nil the step is drawn,
// with probability Guide/10, among the (axis, test) pairs that select at least
// one node from base.
func (g *G) Step(base xref.NodeSet) *xast.Step {
	axes := g.axes()
	var pickc stepChoice
	guided := false
	if base != nil && g.Guide > 0 && g.chance(g.Guide, "guide") {
		// axis first (uniform among the axes that reach something), then a test that matches
		var goodAxes []string
		reachOf := map[string][]*xdoc.Node{}
		for _, ax := range axes {
			var reach []*xdoc.Node
			for _, m := range base {
				reach = append(reach, xref.AxisNodes(ax, m)...)
			}
			if len(reach) > 0 {
				goodAxes = append(goodAxes, ax)
				reachOf[ax] = reach
			}
		}
		if len(goodAxes) > 0 {
			ax := goodAxes[g.intn(len(goodAxes), "goodaxis")]
			var good []stepChoice
			for _, t := range g.testsFor(ax) {
				for _, m := range reachOf[ax] {
					if g.Env.TestNode(ax, t, m) {
						good = append(good, stepChoice{ax, t})
						break
					}
				}
			}
			if len(good) > 0 {
				pickc = good[g.intn(len(good), "goodtest")]
				guided = true
			}
		}
	}
	if !guided {
		ax := axes[g.intn(len(axes), "axis")]
		ts := g.testsFor(ax)
		pickc = stepChoice{ax, ts[g.intn(len(ts), "test")]}
	}
	return &xast.Step{Axis: pickc.axis, Test: pickc.test, Abbr: rapid.Bool().Draw(g.T, "abbr")}
}

// advance applies a step (or '//') to a reference node-set.
func (g *G) advance(cur xref.NodeSet, s interface{}) xref.NodeSet {
	if cur == nil {
		return nil
	}
	var next []*xdoc.Node
	for _, n := range cur {
		switch st := s.(type) {
		case xast.DSlash:
			next = append(next, xref.AxisNodes("descendant-or-self", n)...)
		case *xast.Step:
			r, ok := g.Env.TryStepNodes(st, n)
			if !ok {
				return nil // guidance budget exhausted: go on unguided
			}
			next = append(next, r...)
		}
	}
	out := xref.SortSet(next)
	if out == nil {
		out = xref.NodeSet{}
	}
	return out
}

// PathOpts shapes AxisPath.
type PathOpts struct {
	MaxSteps  int
	PredDepth int  // > 0: steps may carry boolean predicates of this nesting depth
	PredShare int  // out of 10: chance that a step carries predicates
	ForcePred bool // at least one predicate somewhere
	LastPred  bool // with ForcePred: the last step always carries a boolean predicate
	Mixed     bool // prefer predicates whose reference verdicts over the candidates are mixed
	Pos       bool // child steps may carry a positional first predicate (C03)
	AbsShare  int  // out of 10: chance of an absolute path
	DSlash    int  // out of 10: chance of '//' before a step
}

// AxisPath draws a location path of 1..MaxSteps steps over all axes, guided
// from ctx (nil ctx = unguided).
func (g *G) AxisPath(ctx *xdoc.Node, o PathOpts) *xast.Path {
	p := &xast.Path{Abs: g.chance(o.AbsShare, "abs")}
	var cur xref.NodeSet
	if ctx != nil {
		cur = xref.NodeSet{ctx}
		if p.Abs {
			cur = xref.NodeSet{g.Env.Doc.Root}
		}
	}
	n := 1 + g.intn(o.MaxSteps, "nsteps")
	any := false
	for i := 0; i < n; i++ {
		if (i > 0 || p.Abs) && g.chance(o.DSlash, "dslash") {
			p.Steps = append(p.Steps, xast.DSlash{})
			cur = g.advance(cur, xast.DSlash{})
		}
		s := g.Step(cur)
		last := i == n-1
		if o.Pos && (g.chance(3, "forcechild") || (last && o.ForcePred && !any)) {
			s.Axis = "child"
			ts := g.testsFor("child")
			s.Test = ts[g.intn(len(ts), "ctest")]
		}
		// candidates of this step (before predicates), for guiding predicate paths
		var cands xref.NodeSet
		if cur != nil {
			cands = g.advance(cur, &xast.Step{Axis: s.Axis, Test: s.Test})
		}
		if o.Pos && s.Axis == "child" && (g.chance(5, "pospred") || (last && o.ForcePred && !any)) {
			s.Preds = append(s.Preds, g.PosPred())
			any = true
		}
		if o.PredDepth > 0 && (g.chance(o.PredShare, "haspred") || (last && o.ForcePred && (!any || o.LastPred))) {
			np := g.CountOf(2, "npred")
			for j := 0; j < np; j++ {
				if o.Mixed {
					s.Preds = append(s.Preds, g.MixedPred(cands, o.PredDepth))
				} else {
					s.Preds = append(s.Preds, g.BoolPred(cands, o.PredDepth))
				}
				any = true
			}
		}
		p.Steps = append(p.Steps, s)
		cur = g.advance(cur, s)
	}
	return p
}

// RelPath draws a short relative (rarely absolute) path for use inside predicates.
func (g *G) RelPath(base xref.NodeSet, maxSteps, predDepth int) *xast.Path {
	p := &xast.Path{Abs: g.chance(1, "pabs")}
	cur := base
	if p.Abs && base != nil {
		cur = xref.NodeSet{g.Env.Doc.Root}
	}
	n := 1 + g.intn(maxSteps, "pnsteps")
	for i := 0; i < n; i++ {
		if (i > 0 || p.Abs) && g.chance(2, "pdslash") {
			p.Steps = append(p.Steps, xast.DSlash{})
			cur = g.advance(cur, xast.DSlash{})
		}
		s := g.Step(cur)
		if predDepth > 0 && g.chance(3, "ppred") {
			var cands xref.NodeSet
			if cur != nil {
				cands = g.advance(cur, &xast.Step{Axis: s.Axis, Test: s.Test})
			}
			s.Preds = append(s.Preds, g.BoolPred(cands, predDepth-1))
		}
		p.Steps = append(p.Steps, s)
		cur = g.advance(cur, s)
	}
	return p
}

// FlatPath draws a flat path in the sense of C12: child/attribute/self steps
// from one context node, or a single descendant step (//n, descendant::n, .//n).
// FlatArg draws a flat path to be used as a function argument or comparison operand.
// One time in four its last step carries predicates from the fragments C02/C03 claim: a
// position as the FIRST predicate of a child step, and/or a boolean predicate. A step
// that filters is a step that moves the evaluation context about; what stands next to it
// (the following argument, the other operand) must not notice. Descendant forms keep no
// predicate (their order under a predicate is claimed by nothing).
func (g *G) FlatArg(base xref.NodeSet) *xast.Path {
	p := g.FlatPath(base)
	if !g.chance(3, "argpreds") {
		return p
	}
	for _, sx := range p.Steps {
		if _, ok := sx.(xast.DSlash); ok {
			return p
		}
		if st, ok := sx.(*xast.Step); ok && st.Axis == "descendant" {
			return p
		}
	}
	st, ok := p.Steps[len(p.Steps)-1].(*xast.Step)
	if !ok {
		return p
	}
	if st.Axis == "child" && rapid.Bool().Draw(g.T, "argpos") {
		st.Preds = append(st.Preds, g.PosPred())
	}
	if len(st.Preds) == 0 || rapid.Bool().Draw(g.T, "argbool") {
		st.Preds = append(st.Preds, g.BoolPred(nil, 0))
	}
	if st.Abbr && (st.Axis == "self" || st.Axis == "parent") {
		st.Abbr = false
	}
	return p
}

func (g *G) FlatPath(base xref.NodeSet) *xast.Path {
	if g.chance(2, "flatdesc") {
		// //name, //p:name, //*, //text(), //node() ... : any node test
		ts := g.testsFor("child")
		t := ts[g.intn(len(ts), "fdtest")]
		switch g.intn(3, "flatdescform") {
		case 0:
			return &xast.Path{Abs: true, Steps: []interface{}{xast.DSlash{}, &xast.Step{Axis: "child", Test: t, Abbr: true}}}
		case 1:
			return &xast.Path{Steps: []interface{}{&xast.Step{Axis: "descendant", Test: t}}}
		default:
			return &xast.Path{Steps: []interface{}{&xast.Step{Axis: "self", Test: xast.NodeTest{Kind: "node"}, Abbr: true}, xast.DSlash{}, &xast.Step{Axis: "child", Test: t, Abbr: true}}}
		}
	}
	p := &xast.Path{Abs: g.chance(1, "fabs")}
	cur := base
	if p.Abs && base != nil {
		cur = xref.NodeSet{g.Env.Doc.Root}
	}
	n := 1 + g.intn(3, "fnsteps")
	save := g.AxisPool
	defer func() { g.AxisPool = save }()
	for i := 0; i < n; i++ {
		if i < n-1 {
			g.AxisPool = []string{"child", "self"}
		} else {
			g.AxisPool = []string{"child", "attribute", "self"}
		}
		s := g.Step(cur)
		p.Steps = append(p.Steps, s)
		cur = g.advance(cur, s)
	}
	return p
}

// litFor draws a string literal for a comparison with path p: with probability
// 6/10 the string-value of a node p actually reaches from one of the candidates
// (so that the comparison is true for some candidates and false for others),
// else one from the pool.
func (g *G) litFor(cands xref.NodeSet, p xast.Expr, pool []string, numeric bool) string {
	if len(cands) > 0 && g.chance(6, "reachlit") {
		var vals []string
		seen := map[string]bool{}
		for i, c := range cands {
			if i >= 6 {
				break
			}
			v, err := xref.Eval(g.Env, p, c)
			if err != nil {
				continue
			}
			ns, _ := v.(xref.NodeSet)
			for j, n := range ns {
				if j >= 4 {
					break
				}
				sv := xdoc.StringValue(n)
				if len(sv) > 24 || seen[sv] || (g.NoQuotes && containsQuote(sv)) || (strings.Contains(sv, "'") && strings.Contains(sv, "\"")) {
					continue
				}
				if numeric && !xref.IsXPathNumber(sv) {
					continue
				}
				seen[sv] = true
				vals = append(vals, sv)
			}
		}
		if len(vals) > 0 {
			v := vals[g.intn(len(vals), "reachval")]
			if numeric {
				v = trimNum(v)
			}
			if v != "" {
				return v
			}
		}
	}
	return g.pick(pool, "poollit")
}

func containsQuote(s string) bool {
	for _, c := range s {
		if c == '\'' || c == '"' {
			return true
		}
	}
	return false
}

// trimNum turns a numeric string-value into a number literal (no sign, no surrounding blanks).
func trimNum(s string) string {
	out := ""
	for _, c := range s {
		if (c >= '0' && c <= '9') || c == '.' {
			out += string(c)
		}
	}
	if out == "." {
		return ""
	}
	return out
}

var cmpOps = []string{"=", "!=", "<", "<=", ">", ">="}
var eqOps = []string{"=", "!="}

// BoolPred draws a boolean-valued predicate of the C02 fragment. cands are
// the candidate nodes the predicate will be applied to (for guidance).
func (g *G) BoolPred(cands xref.NodeSet, depth int) xast.Expr {
	switch g.intn(12, "predkind") {
	case 0, 1, 2:
		return g.RelPath(cands, 2, depth)
	case 3:
		op := g.pick(eqOps, "eqop")
		rp := g.RelPath(cands, 2, 0)
		lit := &xast.Str{S: g.litFor(cands, rp, g.StrLits, false), DQ: g.chance(2, "dq")}
		if rapid.Bool().Draw(g.T, "flip") {
			return &xast.Bin{Op: op, L: lit, R: rp}
		}
		return &xast.Bin{Op: op, L: rp, R: lit}
	case 4:
		var arg xast.Expr
		if g.NonFlatCount && g.chance(5, "nonflatcount") {
			arg = g.RelPath(cands, 2, 0)
		} else {
			arg = g.FlatArg(cands) // 3 in 10: the last step filters (count(b/c[contains(@x, 'v')]) > 0)
		}
		return &xast.Bin{Op: g.pick(cmpOps, "cop"), L: &xast.Call{Name: "count", Args: []xast.Expr{arg}}, R: &xast.Num{Lit: g.pick(g.NumLits, "nlit")}}
	case 5:
		op := g.pick(cmpOps, "rop")
		rp := g.RelPath(cands, 2, 0)
		lit := &xast.Num{Lit: g.litFor(cands, rp, g.NumLits, true)}
		if rapid.Bool().Draw(g.T, "flip") {
			return &xast.Bin{Op: op, L: lit, R: rp}
		}
		return &xast.Bin{Op: op, L: rp, R: lit}
	case 6:
		return &xast.Call{Name: "not", Args: []xast.Expr{g.BoolPred(cands, depth)}}
	case 7:
		if depth <= 0 {
			return g.RelPath(cands, 1, 0)
		}
		return &xast.Bin{Op: g.pick([]string{"and", "or"}, "andor"), L: g.BoolPred(cands, depth-1), R: g.BoolPred(cands, depth-1)}
	case 8:
		fn := g.pick([]string{"contains", "starts-with"}, "strfn")
		var a xast.Expr
		if g.chance(3, "lname") {
			a = &xast.Call{Name: "local-name"}
		} else if g.NonFlatConv && g.chance(5, "nonflatconv") {
			a = g.RelPath(cands, 2, 0)
		} else {
			a = g.FlatPath(cands)
		}
		if g.ExtraFuncs && g.chance(4, "extrafn") {
			// string functions that build their result in pooled buffers
			lit := &xast.Str{S: g.pick(g.StrLits, "slit")}
			switch g.intn(3, "extrakind") {
			case 0:
				return &xast.Bin{Op: g.pick(eqOps, "eqop"), L: &xast.Call{Name: "normalize-space", Args: []xast.Expr{a}}, R: lit}
			case 1:
				return &xast.Bin{Op: g.pick(eqOps, "eqop"), L: &xast.Call{Name: "concat", Args: []xast.Expr{a, &xast.Str{S: "-"}, &xast.Call{Name: "local-name"}}}, R: lit}
			default:
				return &xast.Bin{Op: g.pick(cmpOps, "cop"), L: &xast.Call{Name: "string-length", Args: []xast.Expr{&xast.Call{Name: "translate", Args: []xast.Expr{a, &xast.Str{S: "1t"}, &xast.Str{S: "x"}}}}}, R: &xast.Num{Lit: g.pick(g.NumLits, "nlit")}}
			}
		}
		return &xast.Call{Name: fn, Args: []xast.Expr{a, &xast.Str{S: g.pick(g.StrLits, "slit"), DQ: g.chance(2, "dq")}}}
	case 9:
		return &xast.Bin{Op: g.pick(eqOps, "eqop"), L: &xast.Call{Name: "local-name"}, R: &xast.Str{S: g.pick(g.ElNames, "lnlit")}}
	case 10:
		return &xast.Call{Name: g.pick([]string{"true", "false"}, "tf")}
	default:
		// existence of a path with its own predicate
		return g.RelPath(cands, 2, depth)
	}
}

// PosPred draws a positional predicate of the C03 fragment.
func (g *G) PosPred() xast.Expr {
	n := &xast.Num{Lit: g.pick(g.posLits(), "posn")}
	switch g.intn(6, "poskind") {
	case 0, 1:
		return n
	case 2:
		if rapid.Bool().Draw(g.T, "flip") {
			return &xast.Bin{Op: g.pick(cmpOps, "pop"), L: n, R: &xast.Call{Name: "position"}}
		}
		return &xast.Bin{Op: g.pick(cmpOps, "pop"), L: &xast.Call{Name: "position"}, R: n}
	case 3:
		if g.chance(3, "flipl") {
			return &xast.Bin{Op: g.pick(cmpOps, "pop"), L: &xast.Call{Name: "last"}, R: &xast.Call{Name: "position"}}
		}
		return &xast.Bin{Op: g.pick(cmpOps, "pop"), L: &xast.Call{Name: "position"}, R: &xast.Call{Name: "last"}}
	case 4:
		return &xast.Call{Name: "last"}
	default:
		return &xast.Bin{Op: "-", L: &xast.Call{Name: "last"}, R: &xast.Num{Lit: g.pick([]string{"1", "2"}, "lastn")}}
	}
}

// PredExpr draws a C02 expression: a path whose steps carry boolean
// predicates (the last step always does), or a parenthesised path followed by
// one or more predicates.
func (g *G) PredExpr(ctx *xdoc.Node, depth int) xast.Expr {
	if g.chance(2, "parenform") {
		inner := g.AxisPath(ctx, PathOpts{MaxSteps: 2, PredDepth: depth, PredShare: 2, AbsShare: 4, DSlash: 2})
		var cands xref.NodeSet
		if v, err := xref.Eval(g.Env, inner, ctx); err == nil {
			cands, _ = v.(xref.NodeSet)
		}
		f := &xast.Filter{Primary: &xast.Group{X: inner}}
		n := 1 + g.intn(2, "nfpred")
		for j := 0; j < n; j++ {
			f.Preds = append(f.Preds, g.MixedPred(cands, depth))
		}
		return f
	}
	return g.AxisPath(ctx, PathOpts{MaxSteps: 3, PredDepth: depth, PredShare: 2, ForcePred: true, LastPred: true, Mixed: true, AbsShare: 4, DSlash: 2})
}

// MixedPred draws up to three boolean predicates and keeps the first one whose
// reference verdicts over the candidates are mixed (some true, some false) - the
// shape on which state leaking between candidates shows. Falls back to the last draw.
func (g *G) MixedPred(cands xref.NodeSet, depth int) xast.Expr {
	var p xast.Expr
	for try := 0; try < 3; try++ {
		p = g.BoolPred(cands, depth)
		if len(cands) < 2 {
			return p
		}
		t, f := 0, 0
		for i, c := range cands {
			if i >= 8 {
				break
			}
			v, err := xref.Eval(g.Env, &xast.Call{Name: "boolean", Args: []xast.Expr{p}}, c)
			if err != nil {
				break
			}
			if v.(bool) {
				t++
			} else {
				f++
			}
		}
		if t > 0 && f > 0 {
			return p
		}
	}
	return p
}

func (g *G) posLits() []string {
	if len(g.PosLits) > 0 {
		return g.PosLits
	}
	return []string{"1", "2", "1", "2", "3", "3", "4", "5", "6", "01", "02", "2.0", "3."} // a Number is decimal however it is spelt
}

// PosN draws the integer of a [n] predicate.
func (g *G) PosN() *xast.Num {
	return &xast.Num{Lit: g.pick(g.posLits(), "n")}
}

// GroupN draws (flat)[n] or (//name)[n], optionally followed by a boolean predicate.
func (g *G) GroupN(base xref.NodeSet) *xast.Filter {
	flat := g.FlatPath(base)
	// The flat path may itself carry a C02/C03 predicate on its last step, except
	// in the descendant forms: C12 defines only the predicate-free //name as
	// yielding document order (with a predicate the engine evaluates '//' parent
	// by parent, so (//a[p])[n] is outside the fragment C03 claims).
	descForm := len(flat.Steps) > 1 && flat.Steps[len(flat.Steps)-2] == interface{}(xast.DSlash{})
	if first, ok := flat.Steps[0].(*xast.Step); ok && first.Axis == "descendant" {
		descForm = true
	}
	if !descForm && g.chance(3, "flatpred") {
		if st, ok := flat.Steps[len(flat.Steps)-1].(*xast.Step); ok {
			if st.Axis == "child" && g.chance(5, "flatpos") {
				st.Preds = append(st.Preds, g.PosPred())
			} else {
				st.Preds = append(st.Preds, g.BoolPred(nil, 0))
			}
		}
	}
	f := &xast.Filter{Primary: &xast.Group{X: flat}, Preds: []xast.Expr{g.PosN()}}
	if g.chance(2, "groupbool") {
		f.Preds = append(f.Preds, g.BoolPred(nil, 0))
	}
	return f
}

// PosExpr draws a C03 expression.
func (g *G) PosExpr(ctx *xdoc.Node) xast.Expr {
	switch g.intn(10, "posform") {
	case 0, 1:
		return g.GroupN(xref.NodeSet{ctx})
	case 2:
		// (flat)[n]/step...
		f := g.GroupN(xref.NodeSet{ctx})
		p := &xast.Path{Start: f}
		var cur xref.NodeSet
		if v, err := xref.Eval(g.Env, f, ctx); err == nil {
			cur, _ = v.(xref.NodeSet)
		}
		n := 1 + g.intn(2, "tailsteps")
		for i := 0; i < n; i++ {
			if g.chance(3, "taildslash") {
				p.Steps = append(p.Steps, xast.DSlash{})
				cur = g.advance(cur, xast.DSlash{})
			}
			st := g.Step(cur)
			p.Steps = append(p.Steps, st)
			cur = g.advance(cur, st)
		}
		return p
	case 3:
		// //a[(b)[2]]: the group is re-evaluated once per candidate
		p := g.AxisPath(ctx, PathOpts{MaxSteps: 2, AbsShare: 5, DSlash: 4})
		var cands xref.NodeSet
		if v, err := xref.Eval(g.Env, p, ctx); err == nil {
			cands, _ = v.(xref.NodeSet)
		}
		last := p.Steps[len(p.Steps)-1].(*xast.Step)
		last.Preds = append(last.Preds, g.GroupN(cands))
		return p
	}
	return g.AxisPath(ctx, PathOpts{MaxSteps: 3, PredDepth: 1, PredShare: 2, Pos: true, ForcePred: true, AbsShare: 4, DSlash: 3})
}
