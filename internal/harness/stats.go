package harness

import (
	"encoding/binary"
	"encoding/json"
	"fmt"
	"hash/fnv"
	"os"
	"sort"
	"strconv"
	"strings"
	"sync"
)

// Sample is one actual case written into the evidence.
type Sample struct {
	Hash uint64      `json:"-"`
	Unit string      `json:"unit"`
	Case interface{} `json:"case"`
}

// Unit collects statistics for one generator/oracle pair of one property.
type Unit struct {
	mu          sync.Mutex
	Property    string           `json:"property"`
	Name        string           `json:"unit"`
	Rule        string           `json:"rule"`
	Evaluations int64            `json:"evaluations"`
	NonTrivial  int64            `json:"nontrivial"`
	OutOfDomain int64            `json:"out_of_domain"`
	Labels      map[string]int64 `json:"labels"`
	Excluded    map[string]int64 `json:"excluded_known"`
	Samples     []Sample         `json:"samples"`
	Exhaustive  bool             `json:"exhaustive"`
	SpaceSize   int64            `json:"space_size"`
	Requested   int64            `json:"requested"`
	Completed   bool             `json:"completed"`
	Failed      bool             `json:"failed"`
	hashes      []uint64
	frozen      bool
}

const maxSamples = 12

var (
	regMu sync.Mutex
	units []*Unit
)

// NewUnit registers a statistics unit.
func NewUnit(property, name, rule string) *Unit {
	u := &Unit{Property: property, Name: name, Rule: rule, Labels: map[string]int64{}, Excluded: map[string]int64{}}
	regMu.Lock()
	units = append(units, u)
	regMu.Unlock()
	return u
}

// Case records one executed case. hash identifies the case for the distinct
// count; sample renders it (called only when the case enters the sample set).
func (u *Unit) Case(hash uint64, nontrivial bool, labels []string, sample func() interface{}) {
	u.mu.Lock()
	defer u.mu.Unlock()
	if u.frozen {
		return
	}
	u.Evaluations++
	for _, l := range labels {
		u.Labels[l]++
	}
	if !nontrivial {
		return
	}
	u.NonTrivial++
	u.hashes = append(u.hashes, hash)
	// bottom-k sample by hash: deterministic, uniform over distinct cases
	if len(u.Samples) < maxSamples || hash < u.Samples[len(u.Samples)-1].Hash {
		for _, s := range u.Samples {
			if s.Hash == hash {
				return
			}
		}
		u.Samples = append(u.Samples, Sample{Hash: hash, Unit: u.Name, Case: sample()})
		sort.Slice(u.Samples, func(i, j int) bool { return u.Samples[i].Hash < u.Samples[j].Hash })
		if len(u.Samples) > maxSamples {
			u.Samples = u.Samples[:maxSamples]
		}
	}
}

// Label bumps a label counter without recording a case.
func (u *Unit) Label(l string) {
	u.mu.Lock()
	if !u.frozen {
		u.Labels[l]++
	}
	u.mu.Unlock()
}

// Skip records a case that left the decided fragment.
func (u *Unit) Skip() {
	u.mu.Lock()
	if !u.frozen {
		u.OutOfDomain++
	}
	u.mu.Unlock()
}

// Exclude records a case excluded because of a confirmed known finding.
func (u *Unit) Exclude(class string) {
	u.mu.Lock()
	if !u.frozen {
		u.Excluded[class]++
	}
	u.mu.Unlock()
}

// Freeze stops counting (called at the first failure so that shrinking runs do not count).
func (u *Unit) Freeze() {
	u.mu.Lock()
	u.frozen = true
	u.Failed = true
	u.mu.Unlock()
}

// Done marks the unit as having run to its requested size.
func (u *Unit) Done(requested int64) {
	u.mu.Lock()
	u.Requested = requested
	u.Completed = true
	u.mu.Unlock()
}

// SetExhaustive marks the unit as a complete enumeration of size n.
func (u *Unit) SetExhaustive(n int64) {
	u.mu.Lock()
	u.Exhaustive = true
	u.SpaceSize = n
	u.mu.Unlock()
}

// Flush writes all units to $VERIF_STATS (JSON) and their non-trivial case
// hashes to $VERIF_STATS.<unit>.hashes (little-endian uint64s, sorted, unique).
func Flush() {
	path := os.Getenv("VERIF_STATS")
	if path == "" {
		return
	}
	regMu.Lock()
	defer regMu.Unlock()
	var out []*Unit
	for _, u := range units {
		if u.Evaluations == 0 && !u.Failed {
			continue
		}
		out = append(out, u)
		sort.Slice(u.hashes, func(i, j int) bool { return u.hashes[i] < u.hashes[j] })
		buf := make([]byte, 0, 8*len(u.hashes))
		var last uint64
		for i, h := range u.hashes {
			if i > 0 && h == last {
				continue
			}
			last = h
			buf = binary.LittleEndian.AppendUint64(buf, h)
		}
		_ = os.WriteFile(path+"."+u.Name+".hashes", buf, 0o644)
	}
	b, _ := json.MarshalIndent(out, "", " ")
	_ = os.WriteFile(path, b, 0o644)
}

// Hash64 hashes strings into a case identity.
func Hash64(parts ...string) uint64 {
	h := fnv.New64a()
	for _, p := range parts {
		h.Write([]byte(p))
		h.Write([]byte{0})
	}
	return h.Sum64()
}

// Mix combines hashes.
func Mix(a uint64, bs ...uint64) uint64 {
	for _, b := range bs {
		a = (a ^ b) * 0x9E3779B97F4A7C15
		a ^= a >> 29
	}
	return a
}

// ---------------------------------------------------------------------------
// known-finding exclusion classes

var (
	exclOnce sync.Once
	exclSet  map[string]bool
)

// Excluded reports whether the exclusion class of a confirmed known finding is active.
func Excluded(class string) bool {
	exclOnce.Do(func() {
		exclSet = map[string]bool{}
		for _, c := range strings.Split(os.Getenv("VERIF_EXCLUDE"), ",") {
			if c = strings.TrimSpace(c); c != "" {
				exclSet[c] = true
			}
		}
	})
	return exclSet[class]
}

// EnvInt reads an integer environment variable.
func EnvInt(name string, def int) int {
	if v := os.Getenv(name); v != "" {
		if n, err := strconv.Atoi(v); err == nil {
			return n
		}
	}
	return def
}

// Shard returns (index, count) of this process within its unit.
func Shard() (int, int) {
	n := EnvInt("VERIF_SHARDS", 1)
	i := EnvInt("VERIF_SHARD", 0)
	if n < 1 {
		n = 1
	}
	return i, n
}

// Tier returns quick or thorough.
func Tier() string {
	if os.Getenv("VERIF_TIER") == "thorough" {
		return "thorough"
	}
	return "quick"
}

// Infof prints a progress line.
func Infof(f string, a ...interface{}) { fmt.Fprintf(os.Stderr, f+"\n", a...) }
