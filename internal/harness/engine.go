// Package harness holds the engine adapters (Select/Evaluate with recover and
// budgets), the common value type, statistics, replay-file I/O and the
// known-finding exclusion classes shared by all checks.
package harness

import (
	"fmt"
	"math"
	"runtime"
	"sort"
	"strings"

	"github.com/antchfx/xpath"

	"verif/internal/xdoc"
	"verif/internal/xref"
)

// Value is a result in harness terms.
type Value struct {
	Kind string // nodes | bool | num | str | other
	IDs  []int  // nodes: the raw sequence of node IDs
	B    bool
	F    float64
	S    string
	Note string
}

func (v Value) String() string {
	switch v.Kind {
	case "nodes":
		return fmt.Sprintf("nodes%v", v.IDs)
	case "bool":
		return fmt.Sprintf("bool(%v)", v.B)
	case "num":
		return "num(" + fmtFloat(v.F) + ")"
	case "str":
		return fmt.Sprintf("str(%q)", v.S)
	case "panic":
		return "aborted"
	}
	return "other(" + v.Note + ")"
}

func fmtFloat(f float64) string {
	if f == 0 && math.Signbit(f) {
		return "-0"
	}
	return fmt.Sprintf("%v", f)
}

// Equal compares two values; numbers compare bit-for-bit except that all NaNs
// are equal and the two zeros are equal (XPath cannot tell them apart other
// than through division, which the arithmetic checks compare separately).
func (v Value) Equal(w Value) bool {
	if v.Kind != w.Kind {
		return false
	}
	switch v.Kind {
	case "nodes":
		return equalInts(v.IDs, w.IDs)
	case "bool":
		return v.B == w.B
	case "num":
		if math.IsNaN(v.F) || math.IsNaN(w.F) {
			return math.IsNaN(v.F) && math.IsNaN(w.F)
		}
		return v.F == w.F
	case "str":
		return v.S == w.S
	case "panic":
		return true
	}
	return v.Note == w.Note
}

func equalInts(a, b []int) bool {
	if len(a) != len(b) {
		return false
	}
	for i := range a {
		if a[i] != b[i] {
			return false
		}
	}
	return true
}

// EqualInts reports whether two int slices are equal.
func EqualInts(a, b []int) bool { return equalInts(a, b) }

// SetOf returns the sorted set of ids.
func SetOf(ids []int) []int {
	out := append([]int(nil), ids...)
	sort.Ints(out)
	w := 0
	for i, x := range out {
		if i == 0 || x != out[w-1] {
			out[w] = x
			w++
		}
	}
	return out[:w]
}

// HasDup reports whether ids contains a repeated element.
func HasDup(ids []int) bool {
	m := map[int]bool{}
	for _, x := range ids {
		if m[x] {
			return true
		}
		m[x] = true
	}
	return false
}

// FromRef converts a reference value.
func FromRef(v interface{}) Value {
	switch x := v.(type) {
	case xref.NodeSet:
		return Value{Kind: "nodes", IDs: x.IDs()}
	case bool:
		return Value{Kind: "bool", B: x}
	case float64:
		return Value{Kind: "num", F: x}
	case string:
		return Value{Kind: "str", S: x}
	}
	return Value{Kind: "other", Note: fmt.Sprintf("%T", v)}
}

// PanicInfo describes a recovered panic.
type PanicInfo struct {
	Value     interface{}
	IsRuntime bool // the value is a runtime.Error (nil deref, index, divide, type assertion)
	IsError   bool // the value is an error
	Budget    bool // the harness navigator's operation budget ran out
	Text      string
	Frame     string // first frame inside the xpath package
}

func (p *PanicInfo) String() string {
	if p == nil {
		return "<no panic>"
	}
	k := "non-error"
	switch {
	case p.Budget:
		k = "budget"
	case p.IsRuntime:
		k = "runtime.Error"
	case p.IsError:
		k = "error"
	}
	return fmt.Sprintf("panic[%s] %s at %s", k, p.Text, p.Frame)
}

// Classify describes a recovered panic value (to be called from the deferred function).
func Classify(r interface{}) *PanicInfo { return classify(r) }

func classify(r interface{}) *PanicInfo {
	p := &PanicInfo{Value: r, Text: fmt.Sprint(r)}
	if _, ok := r.(xdoc.BudgetExceeded); ok {
		p.Budget = true
		p.IsError = true
		return p
	}
	if e, ok := r.(error); ok {
		p.IsError = true
		if _, ok := e.(runtime.Error); ok {
			p.IsRuntime = true
		}
	}
	// first frame inside the engine
	pcs := make([]uintptr, 64)
	n := runtime.Callers(2, pcs)
	fr := runtime.CallersFrames(pcs[:n])
	for {
		f, more := fr.Next()
		if strings.HasPrefix(f.Function, "github.com/antchfx/xpath.") {
			file := f.File
			if i := strings.LastIndex(file, "/"); i >= 0 {
				file = file[i+1:]
			}
			p.Frame = fmt.Sprintf("%s (%s:%d)", strings.TrimPrefix(f.Function, "github.com/antchfx/xpath."), file, f.Line)
			break
		}
		if !more {
			break
		}
	}
	return p
}

// MaxResults caps how many nodes are drained from an iterator.
const MaxResults = 100000

// Drain runs an iterator to exhaustion and returns the node IDs.
func Drain(it *xpath.NodeIterator) (ids []int, capped bool) {
	for it.MoveNext() {
		n := xdoc.NodeOf(it.Current())
		if n == nil {
			ids = append(ids, -1)
		} else {
			ids = append(ids, n.ID)
		}
		if len(ids) >= MaxResults {
			return ids, true
		}
	}
	// Callers poll an exhausted iterator; what that does to the engine's state is the
	// business of whichever check runs next in this process (C12 checks the answer itself).
	_ = it.MoveNext()
	return ids, false
}

// Select runs e.Select from node ctx and drains the iterator.
func Select(e *xpath.Expr, d *xdoc.Doc, f xdoc.Flavour, ctx *xdoc.Node, b *xdoc.Budget) (ids []int, capped bool, pan *PanicInfo) {
	defer func() {
		if r := recover(); r != nil {
			pan = classify(r)
		}
	}()
	it := e.Select(d.Nav(f, ctx, b))
	ids, capped = Drain(it)
	return
}

// Evaluate runs e.Evaluate from node ctx; node-set results are drained.
func Evaluate(e *xpath.Expr, d *xdoc.Doc, f xdoc.Flavour, ctx *xdoc.Node, b *xdoc.Budget) (v Value, capped bool, pan *PanicInfo) {
	defer func() {
		if r := recover(); r != nil {
			pan = classify(r)
		}
	}()
	raw := e.Evaluate(d.Nav(f, ctx, b))
	switch x := raw.(type) {
	case *xpath.NodeIterator:
		ids, c := Drain(x)
		return Value{Kind: "nodes", IDs: ids}, c, nil
	case bool:
		return Value{Kind: "bool", B: x}, false, nil
	case float64:
		return Value{Kind: "num", F: x}, false, nil
	case string:
		return Value{Kind: "str", S: x}, false, nil
	}
	return Value{Kind: "other", Note: fmt.Sprintf("%T", raw)}, false, nil
}

// Compile compiles with an optional namespace map (nil map + hasNS=false → Compile).
func Compile(expr string, ns map[string]string, hasNS bool) (e *xpath.Expr, err error, pan *PanicInfo) {
	defer func() {
		if r := recover(); r != nil {
			pan = classify(r)
		}
	}()
	if hasNS {
		e, err = xpath.CompileWithNS(expr, ns)
	} else {
		e, err = xpath.Compile(expr)
	}
	return
}
