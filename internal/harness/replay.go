package harness

import (
	"bytes"
	"encoding/json"
	"fmt"
	"os"
	"sort"
	"sync"

	"verif/internal/xast"
	"verif/internal/xdoc"
)

// Case is one checkable case in serialisable form (the replay file).
type Case struct {
	Property string                 `json:"property"`
	Check    string                 `json:"check"` // which oracle of the property
	Seed     uint64                 `json:"seed,omitempty"`
	Doc      string                 `json:"doc,omitempty"`
	Doc2     string                 `json:"doc2,omitempty"`
	Flavour  string                 `json:"flavour,omitempty"` // ns | plain
	HasNS    bool                   `json:"has_ns_map,omitempty"`
	NSMap    map[string]string      `json:"ns_map,omitempty"`
	Ctx      int                    `json:"ctx"`
	Expr     string                 `json:"expr,omitempty"`
	AST      json.RawMessage        `json:"ast,omitempty"`
	Params   map[string]interface{} `json:"params,omitempty"`
	Expected string                 `json:"expected,omitempty"`
	Got      string                 `json:"got,omitempty"`
	Note     string                 `json:"note,omitempty"`
}

// Failure is the outcome of an oracle that found a violation.
type Failure struct {
	Expected string
	Got      string
	Note     string
}

func (f *Failure) String() string {
	return fmt.Sprintf("expected %s, got %s (%s)", f.Expected, f.Got, f.Note)
}

// Failf builds a Failure.
func Failf(expected, got, note string, a ...interface{}) *Failure {
	return &Failure{Expected: expected, Got: got, Note: fmt.Sprintf(note, a...)}
}

// Live is a case with live objects, as the generators build it.
type Live struct {
	Property string
	Check    string
	Doc      *xdoc.Doc
	Doc2     *xdoc.Doc
	Flavour  xdoc.Flavour
	HasNS    bool
	NSMap    map[string]string
	Ctx      *xdoc.Node
	Expr     string
	AST      xast.Expr
	Params   map[string]interface{}
}

// Save serialises a live case.
func (l *Live) Save() *Case {
	c := &Case{Property: l.Property, Check: l.Check, Flavour: l.Flavour.String(), HasNS: l.HasNS, NSMap: l.NSMap, Expr: l.Expr, Params: l.Params}
	if l.Doc != nil {
		c.Doc = l.Doc.String()
	}
	if l.Doc2 != nil {
		c.Doc2 = l.Doc2.String()
	}
	if l.Ctx != nil {
		c.Ctx = l.Ctx.ID
	}
	if l.AST != nil {
		c.AST = xast.Marshal(l.AST)
	}
	return c
}

// Load turns a serialised case back into live objects.
func (c *Case) Load() (*Live, error) {
	l := &Live{Property: c.Property, Check: c.Check, HasNS: c.HasNS, NSMap: c.NSMap, Expr: c.Expr, Params: c.Params}
	if c.Flavour == "plain" {
		l.Flavour = xdoc.Plain
	}
	if c.Doc != "" {
		d, err := xdoc.Parse(c.Doc)
		if err != nil {
			return nil, fmt.Errorf("doc: %v", err)
		}
		l.Doc = d
		if c.Ctx < 0 || c.Ctx >= len(d.Nodes) {
			return nil, fmt.Errorf("ctx %d out of range", c.Ctx)
		}
		l.Ctx = d.Nodes[c.Ctx]
	}
	if c.Doc2 != "" {
		d, err := xdoc.Parse(c.Doc2)
		if err != nil {
			return nil, fmt.Errorf("doc2: %v", err)
		}
		l.Doc2 = d
	}
	ast, err := xast.Unmarshal(c.AST)
	if err != nil {
		return nil, err
	}
	l.AST = ast
	return l, nil
}

// Sample renders a live case compactly for the evidence file.
func (l *Live) Sample(extra ...interface{}) map[string]interface{} {
	m := map[string]interface{}{"expr": l.Expr}
	if l.Doc != nil {
		m["doc"] = l.Doc.String()
	}
	if l.Ctx != nil {
		m["ctx"] = l.Ctx.Desc()
	}
	if l.HasNS {
		m["ns_map"] = l.NSMap
	}
	if l.Doc != nil && l.Flavour == xdoc.Plain {
		m["flavour"] = "plain"
	}
	for i := 0; i+1 < len(extra); i += 2 {
		m[fmt.Sprint(extra[i])] = extra[i+1]
	}
	return m
}

// Oracle re-checks a loaded case; nil means the property holds on it.
type Oracle func(l *Live) *Failure

var (
	oracleMu sync.Mutex
	oracles  = map[string]Oracle{}
)

// RegisterOracle makes a check replayable under its name ("C01/select-set").
func RegisterOracle(name string, o Oracle) {
	oracleMu.Lock()
	oracles[name] = o
	oracleMu.Unlock()
}

// LookupOracle finds a registered oracle.
func LookupOracle(name string) Oracle {
	oracleMu.Lock()
	defer oracleMu.Unlock()
	return oracles[name]
}

// OracleNames lists the registered oracles.
func OracleNames() []string {
	oracleMu.Lock()
	defer oracleMu.Unlock()
	var out []string
	for k := range oracles {
		out = append(out, k)
	}
	sort.Strings(out)
	return out
}

// TB is the part of testing.TB / rapid.T the harness needs.
type TB interface {
	Fatalf(format string, args ...interface{})
}

// Report writes the failing case to $VERIF_FAILFILE (overwriting: the last
// write during shrinking is the minimal case), freezes the statistics and
// fails the test.
func Report(t TB, u *Unit, l *Live, f *Failure) {
	c := l.Save()
	c.Expected, c.Got, c.Note = f.Expected, f.Got, f.Note
	c.Seed = uint64(EnvInt("VERIF_RAPID_SEED", 0))
	if u != nil {
		u.Freeze()
	}
	WriteCase(os.Getenv("VERIF_FAILFILE"), c)
	t.Fatalf("VIOLATION %s [%s] expr=%q doc=%s ctx=%d: %s", c.Property, c.Check, c.Expr, c.Doc, c.Ctx, f)
}

// WriteCase writes a case file (no-op for an empty path).
func WriteCase(path string, c *Case) {
	if path == "" {
		return
	}
	var buf bytes.Buffer
	enc := json.NewEncoder(&buf)
	enc.SetEscapeHTML(false)
	enc.SetIndent("", " ")
	_ = enc.Encode(c)
	tmp := path + ".tmp"
	if err := os.WriteFile(tmp, buf.Bytes(), 0o644); err == nil {
		_ = os.Rename(tmp, path)
	}
}

// ReadCase reads a case file.
func ReadCase(path string) (*Case, error) {
	b, err := os.ReadFile(path)
	if err != nil {
		return nil, err
	}
	var c Case
	if err := json.Unmarshal(b, &c); err != nil {
		return nil, err
	}
	return &c, nil
}

// Journal records the case a process is about to run, so that the driver can
// attribute a fatal crash (stack overflow, concurrent map write, race-detector
// abort) that no recover() can catch. One open file, rewritten in place.
type Journal struct{ f *os.File }

// OpenJournal opens $VERIF_JOURNAL (nil when unset).
func OpenJournal() *Journal {
	p := os.Getenv("VERIF_JOURNAL")
	if p == "" {
		return nil
	}
	f, err := os.OpenFile(p, os.O_CREATE|os.O_RDWR|os.O_TRUNC, 0o644)
	if err != nil {
		return nil
	}
	return &Journal{f: f}
}

// Record overwrites the journal with c.
func (j *Journal) Record(c *Case) {
	if j == nil {
		return
	}
	b, err := json.Marshal(c)
	if err != nil {
		return
	}
	if _, err := j.f.WriteAt(b, 0); err == nil {
		_ = j.f.Truncate(int64(len(b)))
	}
}

// Close removes the journal: the process finished its cases alive.
func (j *Journal) Close() {
	if j == nil {
		return
	}
	name := j.f.Name()
	j.f.Close()
	os.Remove(name)
}
