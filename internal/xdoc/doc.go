// Package xdoc is the harness-owned document model: a plain tree of nodes, a
// compact textual form used in samples and replay files, and two
// xpath.NodeNavigator implementations over it (with and without NamespaceURL).
package xdoc

import (
	"fmt"
	"hash/fnv"
	"strings"

	"github.com/antchfx/xpath"
)

// Node is one node of a document. ID is the position in XPath document order
// (an element's attributes directly follow the element).
type Node struct {
	Kind   xpath.NodeType
	Prefix string
	Local  string
	NS     string
	Value  string // text, comment and attribute value
	Attrs  []*Node
	Kids   []*Node
	Parent *Node
	Idx    int // index among siblings (Kids) or among Attrs
	ID     int
}

// Doc is a numbered document.
type Doc struct {
	Root  *Node
	Nodes []*Node // by ID
}

// NewDoc numbers the tree under root (fixing Parent, Idx and ID) and returns the Doc.
func NewDoc(root *Node) *Doc {
	d := &Doc{Root: root}
	var num func(n *Node)
	num = func(n *Node) {
		n.ID = len(d.Nodes)
		d.Nodes = append(d.Nodes, n)
		for i, a := range n.Attrs {
			a.Parent, a.Idx = n, i
			a.ID = len(d.Nodes)
			d.Nodes = append(d.Nodes, a)
		}
		for i, k := range n.Kids {
			k.Parent, k.Idx = n, i
			num(k)
		}
	}
	root.Parent = nil
	num(root)
	return d
}

// StringValue is the XPath string-value of a node.
func StringValue(n *Node) string {
	switch n.Kind {
	case xpath.TextNode, xpath.CommentNode, xpath.AttributeNode:
		return n.Value
	}
	if len(n.Kids) == 0 {
		return ""
	}
	var sb strings.Builder
	var rec func(*Node)
	rec = func(m *Node) {
		if m.Kind == xpath.TextNode {
			sb.WriteString(m.Value)
		}
		for _, k := range m.Kids {
			rec(k)
		}
	}
	rec(n)
	return sb.String()
}

// QName is prefix:local or local.
func (n *Node) QName() string {
	if n.Prefix != "" {
		return n.Prefix + ":" + n.Local
	}
	return n.Local
}

// Desc is a short human-readable description of a node.
func (n *Node) Desc() string {
	switch n.Kind {
	case xpath.RootNode:
		return "#0 root"
	case xpath.ElementNode:
		return fmt.Sprintf("#%d <%s>", n.ID, n.QName())
	case xpath.AttributeNode:
		return fmt.Sprintf("#%d @%s='%s'", n.ID, n.QName(), n.Value)
	case xpath.TextNode:
		return fmt.Sprintf("#%d text{%s}", n.ID, n.Value)
	case xpath.CommentNode:
		return fmt.Sprintf("#%d comment{%s}", n.ID, n.Value)
	}
	return "?"
}

var escaper = strings.NewReplacer("&", "&amp;", "<", "&lt;", "'", "&apos;", "{", "&#123;", "}", "&#125;")
var unescaper = strings.NewReplacer("&lt;", "<", "&apos;", "'", "&#123;", "{", "&#125;", "}", "&amp;", "&")

// String renders the document in the compact form understood by Parse:
// <p:a xmlns:p='u' x='1'>{text}<!--comment--><b/></p:a>. Text nodes are
// written between braces so that adjacent text nodes stay distinct; namespace
// pseudo-attributes bind only the nodes of the element they are written on.
func (d *Doc) String() string {
	var sb strings.Builder
	var rec func(*Node)
	rec = func(n *Node) {
		switch n.Kind {
		case xpath.RootNode:
			for _, k := range n.Kids {
				rec(k)
			}
		case xpath.ElementNode:
			sb.WriteString("<" + n.QName())
			seen := map[string]bool{}
			decl := func(m *Node) {
				if m.NS == "" {
					return
				}
				key := "xmlns"
				if m.Prefix != "" {
					key = "xmlns:" + m.Prefix
				}
				if m.Kind == xpath.AttributeNode && m.Prefix == "" {
					key = "xmlns:@" + m.Local
				}
				if !seen[key+"="+m.NS] {
					seen[key+"="+m.NS] = true
					sb.WriteString(" " + key + "='" + escaper.Replace(m.NS) + "'")
				}
			}
			decl(n)
			for _, a := range n.Attrs {
				decl(a)
			}
			for _, a := range n.Attrs {
				sb.WriteString(" " + a.QName() + "='" + escaper.Replace(a.Value) + "'")
			}
			if len(n.Kids) == 0 {
				sb.WriteString("/>")
				return
			}
			sb.WriteString(">")
			for _, k := range n.Kids {
				rec(k)
			}
			sb.WriteString("</" + n.QName() + ">")
		case xpath.TextNode:
			sb.WriteString("{" + escaper.Replace(n.Value) + "}")
		case xpath.CommentNode:
			sb.WriteString("<!--" + n.Value + "-->")
		}
	}
	rec(d.Root)
	return sb.String()
}

// Hash is a structural 64-bit hash of the document.
func (d *Doc) Hash() uint64 {
	h := fnv.New64a()
	var b [1]byte
	for _, n := range d.Nodes {
		b[0] = byte(n.Kind)
		h.Write(b[:])
		h.Write([]byte(n.Prefix))
		b[0] = ':'
		h.Write(b[:])
		h.Write([]byte(n.Local))
		b[0] = '|'
		h.Write(b[:])
		h.Write([]byte(n.NS))
		b[0] = '='
		h.Write(b[:])
		h.Write([]byte(n.Value))
		b[0] = byte(len(n.Kids))
		h.Write(b[:])
		b[0] = byte(len(n.Attrs))
		h.Write(b[:])
	}
	return h.Sum64()
}

// Parse reads the compact form written by String.
func Parse(s string) (*Doc, error) {
	root := &Node{Kind: xpath.RootNode}
	cur := root
	i := 0
	for i < len(s) {
		switch {
		case strings.HasPrefix(s[i:], "<!--"):
			j := strings.Index(s[i+4:], "-->")
			if j < 0 {
				return nil, fmt.Errorf("unclosed comment at %d", i)
			}
			cur.Kids = append(cur.Kids, &Node{Kind: xpath.CommentNode, Value: s[i+4 : i+4+j], Parent: cur})
			i += 4 + j + 3
		case strings.HasPrefix(s[i:], "</"):
			j := strings.Index(s[i:], ">")
			if j < 0 || cur.Parent == nil {
				return nil, fmt.Errorf("bad end tag at %d", i)
			}
			if s[i+2:i+j] != cur.QName() {
				return nil, fmt.Errorf("mismatched end tag %q at %d", s[i+2:i+j], i)
			}
			cur = cur.Parent
			i += j + 1
		case s[i] == '<':
			e, selfclose, n, err := parseTag(s[i:])
			if err != nil {
				return nil, fmt.Errorf("at %d: %v", i, err)
			}
			e.Parent = cur
			cur.Kids = append(cur.Kids, e)
			if !selfclose {
				cur = e
			}
			i += n
		case s[i] == '{':
			j := strings.Index(s[i:], "}")
			if j < 0 {
				return nil, fmt.Errorf("unclosed text at %d", i)
			}
			cur.Kids = append(cur.Kids, &Node{Kind: xpath.TextNode, Value: unescaper.Replace(s[i+1 : i+j]), Parent: cur})
			i += j + 1
		default:
			return nil, fmt.Errorf("unexpected %q at %d", s[i], i)
		}
	}
	if cur != root {
		return nil, fmt.Errorf("unclosed element %s", cur.QName())
	}
	return NewDoc(root), nil
}

func splitQ(q string) (string, string) {
	if k := strings.Index(q, ":"); k >= 0 {
		return q[:k], q[k+1:]
	}
	return "", q
}

func parseTag(s string) (e *Node, selfclose bool, n int, err error) {
	// s starts with '<'
	i := 1
	j := i
	for j < len(s) && s[j] != ' ' && s[j] != '>' && s[j] != '/' {
		j++
	}
	e = &Node{Kind: xpath.ElementNode}
	e.Prefix, e.Local = splitQ(s[i:j])
	ns := map[string]string{}
	i = j
	for {
		if i >= len(s) {
			return nil, false, 0, fmt.Errorf("unclosed tag")
		}
		if s[i] == ' ' {
			i++
			continue
		}
		if s[i] == '/' && i+1 < len(s) && s[i+1] == '>' {
			selfclose = true
			i += 2
			break
		}
		if s[i] == '>' {
			i++
			break
		}
		k := strings.Index(s[i:], "='")
		if k < 0 {
			return nil, false, 0, fmt.Errorf("bad attribute")
		}
		name := s[i : i+k]
		v := i + k + 2
		w := strings.Index(s[v:], "'")
		if w < 0 {
			return nil, false, 0, fmt.Errorf("unclosed attribute value")
		}
		val := unescaper.Replace(s[v : v+w])
		i = v + w + 1
		if name == "xmlns" || strings.HasPrefix(name, "xmlns:") {
			ns[name] = val
			continue
		}
		a := &Node{Kind: xpath.AttributeNode, Value: val, Parent: e}
		a.Prefix, a.Local = splitQ(name)
		e.Attrs = append(e.Attrs, a)
	}
	if e.Prefix != "" {
		e.NS = ns["xmlns:"+e.Prefix]
	} else {
		e.NS = ns["xmlns"]
	}
	for _, a := range e.Attrs {
		if a.Prefix != "" {
			a.NS = ns["xmlns:"+a.Prefix]
		} else {
			a.NS = ns["xmlns:@"+a.Local]
		}
	}
	return e, selfclose, i, nil
}

// MustParse is Parse for literals.
func MustParse(s string) *Doc {
	d, err := Parse(s)
	if err != nil {
		panic(err)
	}
	return d
}
