package xdoc

import (
	"github.com/antchfx/xpath"
)

// Budget counts navigator operations. When Limit > 0 and Ops exceeds it, the
// navigator panics with BudgetExceeded: the harness uses this to decide
// non-termination deterministically (C15).
type Budget struct {
	Ops   int64
	Limit int64
}

// BudgetExceeded is the panic value raised when a navigator runs out of budget.
type BudgetExceeded struct{ Ops int64 }

func (b BudgetExceeded) Error() string { return "harness: navigator operation budget exceeded" }

// Flavour selects the navigator type.
type Flavour int

const (
	// NS navigators implement NamespaceURL() (like xmlquery).
	NS Flavour = iota
	// Plain navigators do not (like htmlquery).
	Plain
)

func (f Flavour) String() string {
	if f == Plain {
		return "plain"
	}
	return "ns"
}

// nav is the shared cursor implementation. It follows the conventions of the
// repository's own test navigator and of htmlquery/xmlquery: attribute nodes
// are reached with MoveToNextAttribute only, have the element as parent and no
// siblings or children.
type nav struct {
	doc *Doc
	cur *Node
	b   *Budget
}

func (n *nav) tick() {
	if n.b != nil {
		n.b.Ops++
		if n.b.Limit > 0 && n.b.Ops > n.b.Limit {
			panic(BudgetExceeded{n.b.Ops})
		}
	}
}

func (n *nav) NodeType() xpath.NodeType { n.tick(); return n.cur.Kind }
func (n *nav) LocalName() string        { n.tick(); return n.cur.Local }
func (n *nav) Prefix() string           { n.tick(); return n.cur.Prefix }
func (n *nav) Value() string            { n.tick(); return StringValue(n.cur) }
func (n *nav) MoveToRoot()              { n.tick(); n.cur = n.doc.Root }

func (n *nav) MoveToParent() bool {
	n.tick()
	if n.cur.Parent == nil {
		return false
	}
	n.cur = n.cur.Parent
	return true
}

func (n *nav) MoveToNextAttribute() bool {
	n.tick()
	if n.cur.Kind == xpath.AttributeNode {
		p := n.cur.Parent
		if n.cur.Idx+1 < len(p.Attrs) {
			n.cur = p.Attrs[n.cur.Idx+1]
			return true
		}
		return false
	}
	if len(n.cur.Attrs) > 0 {
		n.cur = n.cur.Attrs[0]
		return true
	}
	return false
}

func (n *nav) MoveToChild() bool {
	n.tick()
	if n.cur.Kind == xpath.AttributeNode || len(n.cur.Kids) == 0 {
		return false
	}
	n.cur = n.cur.Kids[0]
	return true
}

func (n *nav) MoveToFirst() bool {
	n.tick()
	if n.cur.Kind == xpath.AttributeNode || n.cur.Parent == nil || n.cur.Idx == 0 {
		return false
	}
	n.cur = n.cur.Parent.Kids[0]
	return true
}

func (n *nav) MoveToNext() bool {
	n.tick()
	if n.cur.Kind == xpath.AttributeNode || n.cur.Parent == nil {
		return false
	}
	if n.cur.Idx+1 < len(n.cur.Parent.Kids) {
		n.cur = n.cur.Parent.Kids[n.cur.Idx+1]
		return true
	}
	return false
}

func (n *nav) MoveToPrevious() bool {
	n.tick()
	if n.cur.Kind == xpath.AttributeNode || n.cur.Parent == nil {
		return false
	}
	if n.cur.Idx > 0 {
		n.cur = n.cur.Parent.Kids[n.cur.Idx-1]
		return true
	}
	return false
}

// NavNS is a navigator that also exposes NamespaceURL().
type NavNS struct{ nav }

// NavPlain is a navigator without NamespaceURL().
type NavPlain struct{ nav }

func (n *NavNS) NamespaceURL() string { n.tick(); return n.cur.NS }

func (n *NavNS) Copy() xpath.NodeNavigator { n.tick(); c := *n; return &c }
func (n *NavNS) MoveTo(o xpath.NodeNavigator) bool {
	n.tick()
	x, ok := o.(*NavNS)
	if !ok || x.doc != n.doc {
		return false
	}
	n.cur = x.cur
	return true
}

func (n *NavPlain) Copy() xpath.NodeNavigator { n.tick(); c := *n; return &c }
func (n *NavPlain) MoveTo(o xpath.NodeNavigator) bool {
	n.tick()
	x, ok := o.(*NavPlain)
	if !ok || x.doc != n.doc {
		return false
	}
	n.cur = x.cur
	return true
}

// Nav returns a fresh navigator of the given flavour positioned on at.
func (d *Doc) Nav(f Flavour, at *Node, b *Budget) xpath.NodeNavigator {
	if f == Plain {
		return &NavPlain{nav{doc: d, cur: at, b: b}}
	}
	return &NavNS{nav{doc: d, cur: at, b: b}}
}

// NodeOf returns the node a harness navigator is positioned on (nil for foreign navigators).
func NodeOf(n xpath.NodeNavigator) *Node {
	switch x := n.(type) {
	case *NavNS:
		return x.cur
	case *NavPlain:
		return x.cur
	}
	return nil
}

// DocOf returns the document a harness navigator belongs to.
func DocOf(n xpath.NodeNavigator) *Doc {
	switch x := n.(type) {
	case *NavNS:
		return x.doc
	case *NavPlain:
		return x.doc
	}
	return nil
}
