#!/usr/bin/env python3
"""usage: tools/mkseedprompts.py <round-letter>
Writes /tmp/seed-prompt-Cnn-<r>.txt for every property and creates the scratch
worktrees /tmp/seed-Cnn-<r> (detached at /repo HEAD) and output directories.
The prompt holds only the property text and a list of one-line summaries of
the seeded changes that already exist for that property (so that a new agent
does something else); nothing from /verif's checks goes into it."""
import json, os, subprocess, sys, glob
r = sys.argv[1]
theme = sys.argv[2] if len(sys.argv) > 2 else ''
tmpl = open('/tmp/seed-prompt.txt').read() if os.path.exists('/tmp/seed-prompt.txt') else open(os.path.join(os.path.dirname(__file__), 'seed-prompt.tmpl')).read()
props = [json.loads(l) for l in open('/verif/properties.jsonl')]
for p in props:
    pid = p['id']
    text = "Property %s — %s\n\nStatement: %s\n\nQuantification: %s" % (pid, p.get('title', ''), p.get('statement', ''), (p.get('quantifier') or {}).get('text', ''))
    wt, out = '/tmp/seed-%s-%s' % (pid, r), '/tmp/seed-%s-%s-out' % (pid, r)
    prior = []
    for d in sorted(glob.glob('/verif/seeded/S-%s-*' % pid)):
        lines = [l.strip() for l in open(d + '/notes.md') if l.strip()]
        head = lines[0].lstrip('# ')
        nxt = next((l for l in lines[1:] if not l.startswith('#')), '')
        prior.append('  - %s. %s' % (head[:160], nxt[:260]))
    s = tmpl.replace('__WT__', wt).replace('__OUT__', out).replace('__PROP__', text)
    s += "\nDiversity requirement: the following seeded changes for this property already exist - do something in a DIFFERENT function or mechanism, and not a variation of any of them:\n" + "\n".join(prior)
    s += "\nThink about what ELSE in the code base makes this property hold (other functions, other query types, the builder's rewrites and flags, the parser and lexer, conversions, iterator/cursor discipline, cloning, the public API wrappers in xpath.go) and break one of those in a way that needs an unusual input shape, value, size, name, node kind, nesting, or call sequence. Prefer a defect whose failing inputs are rare among 'typical' randomly generated inputs (a boundary, a particular size >= 10, a specific combination of three features, an unusual character), yet deterministic.\n"
    if theme:
        s += "\nTheme for this round (follow it if the property can be broken that way, otherwise ignore it): " + theme + "\n"
    open('/tmp/seed-prompt-%s-%s.txt' % (pid, r), 'w').write(s)
    if not os.path.isdir(wt): subprocess.run(['git', '-C', '/repo', 'worktree', 'add', '--detach', wt, 'HEAD'], check=True, stdout=subprocess.DEVNULL, stderr=subprocess.DEVNULL)
    os.makedirs(out, exist_ok=True)
    print(pid, len(prior), 'prior')
