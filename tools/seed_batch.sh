#!/bin/sh
# usage: tools/seed_batch.sh <round-letter>   import every finished /tmp/seed-Cnn-<letter>-out and evaluate it; remove its worktree
cd "$(dirname "$0")/.." || exit 2
r="$1"
ids=""
for p in C01 C02 C03 C04 C05 C06 C07 C08 C09 C10 C11 C12 C13 C14 C15 C16 C17; do
  out=/tmp/seed-$p-$r-out
  if [ -f $out/patch.diff ] && [ -f $out/seed_demo_test.go ] && [ -f $out/notes.md ] && [ ! -d seeded/S-$p-$r ]; then
    python3 tools/seed_eval.py import $out S-$p-$r $p | tail -1
    ids="$ids S-$p-$r"
    git -C /repo worktree remove --force /tmp/seed-$p-$r 2>/dev/null; rm -rf /tmp/seed-$p-$r $out
  fi
done
git -C /repo worktree prune
[ -n "$ids" ] && python3 tools/seed_eval.py run $ids 2>&1 | cut -c1-330
