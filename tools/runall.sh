#!/bin/sh
# usage: tools/runall.sh <tier> <seed>...   runs every property's check at the given seeds; prints one line per run
cd "$(dirname "$0")/.." || exit 2
tier="$1"; shift
for seed in "$@"; do
  for p in C01 C02 C03 C04 C05 C06 C07 C08 C09 C10 C11 C12 C13 C14 C15 C16 C17; do
    out=$(VERIF_SEED=$seed bin/vcheck run $p --tier $tier 2>&1); rc=$?
    echo "seed=$seed $p rc=$rc $(echo "$out" | grep -E '^(OK|VIOLATION|INCONCLUSIVE)' | head -3 | tr '\n' ' ')"
    if [ $rc -ne 0 ]; then echo "$out" | grep -A5 'case:' | head -24; fi
  done
done
