#!/bin/sh
# usage: tools/probe.sh '<doc>' ctx 'expr1' 'expr2' ...   (builds ./checks against /repo and probes the engine)
export GOFLAGS=-mod=mod GOPROXY=off GOSUMDB=off GOTOOLCHAIN=local
cd "$(dirname "$0")/.." || exit 2
doc="$1"; ctx="$2"; shift 2
exprs=$(printf '%s\n' "$@")
VERIF_PROBE_DOC="$doc" VERIF_PROBE_CTX="$ctx" VERIF_PROBE_EXPRS="$exprs" go test -tags verif -count=1 -v -run '^TestProbe$' ./checks 2>&1 | grep -v '^ok\|^PASS\|^=== RUN\|^--- '
