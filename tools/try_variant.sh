#!/bin/sh
# usage: tools/try_variant.sh <patch-file> [property...]
# Runs the quick checks (all 17, or the ones named) against /repo HEAD + a PROPERTY-PRESERVING
# variant (scratch worktree): every check must stay silent (exit 0).
cd "$(dirname "$0")/.." || exit 2
export GOFLAGS=-mod=mod GOPROXY=off GOSUMDB=off GOTOOLCHAIN=local VERIF_NO_REGRESSION=1
patch="$(realpath "$1")"; shift
props="$*"; [ -n "$props" ] || props="C01 C02 C03 C04 C05 C06 C07 C08 C09 C10 C11 C12 C13 C14 C15 C16 C17"
wt=/tmp/variant-$$
git -C /repo worktree add --detach $wt HEAD >/dev/null 2>&1 || exit 2
git -C $wt apply "$patch" || { git -C /repo worktree remove --force $wt; exit 2; }
( cd $wt && go test -count=1 ./... >/dev/null 2>&1 ) || echo "NOTE: the repository's own suite fails with this variant"
rc=0
for p in $props; do
  out=$(VERIF_REPO=$wt VERIF_WORKTAG=var$$ bin/vcheck run $p --tier quick 2>&1); r=$?
  echo "$(basename $patch) $p rc=$r $(echo "$out" | grep -E '^(OK|VIOLATION|INCONCLUSIVE)' | head -1 | cut -c1-120)"
  if [ $r -ne 0 ]; then rc=1; echo "$out" | grep -A4 'case:' | head -8 | cut -c1-300; fi
  rm -rf .work/$p-var$$
done
git -C /repo worktree remove --force $wt; rm -rf $wt; git -C /repo worktree prune
exit $rc
