#!/usr/bin/env python3
"""Regenerates seeded/RESULTS.md from the meta.json and notes.md of every seeded change."""
import json, glob, os, re
ROOT = os.path.dirname(os.path.dirname(os.path.abspath(__file__)))
rows = []
# results that seed_eval.py (which runs only the seed's own property) cannot produce
OVERRIDE = {
    'S-C03-q': 'C04 quick and C05 quick (not C03: mergeQuery.Clone sharing its child step, the change of S-C04-n again; inside the fragment C03 claims it needs two goroutines on one expression, which C03 does not quantify over)',
    'S-C06-p': 'C05 quick (not C06: an unlocked process-wide map in the lexer that only goes wrong - a fatal "concurrent map writes" - when two goroutines compile at once; C06 does not quantify over schedules, C05 does)',
    'S-C11-o': 'C05 quick (not C11: a process-wide hasher that only goes wrong when two goroutines evaluate at once - a violation of C05, which is where it is caught; C11 does not quantify over schedules)',
    'S-C14-d': 'C04 quick and C05 quick (not C14: inside the fragment C14 claims the name functions still answer right)',
    'S-C06-a': 'C06 quick on the tree it was written for (before fix R30, 82179e3). On the repaired tree the change no longer breaks C06: the builder\'s node limit introduced by R30 turns its exponential blow-up into a prompt "too complex" error, so Compile terminates; the check is rightly silent',
}
for d in sorted(glob.glob(os.path.join(ROOT, 'seeded', 'S-C*'))):
    m = json.load(open(d + '/meta.json'))
    if m['id'] in OVERRIDE and not m.get('caught_by'):
        m['caught_by'] = OVERRIDE[m['id']]
        json.dump(m, open(d + '/meta.json', 'w'), indent=1)
    lines = [l.strip() for l in open(d + '/notes.md') if l.strip()]
    head = lines[0].lstrip('# ').strip()
    if re.fullmatch(r'(Seed(ed change)?|Notes?)\s*\S*', head) and len(lines) > 1:
        head = lines[1].lstrip('-* ').strip()
    head = head.replace('|', '/')[:240]
    rows.append('| %s | %s | %s | %s | %s | %s |' % (m['id'], m['property'], m.get('confirmed'), str(m.get('first_result') or m.get('caught_by')).replace('|', '/'), str(m.get('caught_by')).replace('|', '/'), head))
out = """# Seeded changes (independent sub-agents; only the property text was given)

Each directory holds patch.diff, seed_demo_test.go, notes.md (the author's own description) and meta.json (what was confirmed; the check/tier that caught it when first tried, and with the current checks - measured with the regression replays of fixed findings switched off, i.e. by generated search alone).

| seed | property | confirmed | first result | current checks | what it is (author's words, abridged) |
|---|---|---|---|---|---|
""" + "\n".join(rows) + "\n"
open(os.path.join(ROOT, 'seeded', 'RESULTS.md'), 'w').write(out)
n = len(rows)
missed = [r for r in rows if ' None |' in r.split('|')[5] + '|']
print(n, 'seeds;', 'not caught:', [r.split('|')[1].strip() for r in rows if r.split('|')[5].strip() in ('None', '')])
