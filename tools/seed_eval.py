#!/usr/bin/env python3
"""Evaluates seeded changes (written by independent sub-agents) against the checks.

  seed_eval.py import <agent-out-dir> <id> <property>   copy patch.diff/demo/notes into seeded/<id>/, then verify:
        - the patch applies to /repo HEAD in a scratch worktree, the package builds, the repository's suite passes
        - the demonstration test fails with the patch and passes without
  seed_eval.py run [id...]    run the property's quick (then thorough) check against the patched scratch worktree
                              (VERIF_REPO), record which check/tier caught it in seeded/<id>/meta.json
Scratch worktrees live under /tmp and are removed immediately.
"""
import json, os, shutil, subprocess, sys

ROOT = os.path.dirname(os.path.dirname(os.path.abspath(__file__)))
SDIR = os.path.join(ROOT, "seeded")
ENV = dict(os.environ, GOFLAGS="-mod=mod", GOPROXY="off", GOSUMDB="off", GOTOOLCHAIN="local", VERIF_NO_REGRESSION="1")


def sh(cmd, cwd=None, env=ENV, timeout=7200):
    return subprocess.run(cmd, cwd=cwd, env=env, shell=isinstance(cmd, str), capture_output=True, text=True, errors="replace", timeout=timeout)


def worktree(tag):
    wt = "/tmp/seedwt-" + tag
    sh(["git", "-C", "/repo", "worktree", "remove", "--force", wt])
    shutil.rmtree(wt, ignore_errors=True)
    r = sh(["git", "-C", "/repo", "worktree", "add", "--detach", wt, "HEAD"])
    assert r.returncode == 0, r.stderr
    return wt


def drop(wt):
    sh(["git", "-C", "/repo", "worktree", "remove", "--force", wt])
    shutil.rmtree(wt, ignore_errors=True)
    sh(["git", "-C", "/repo", "worktree", "prune"])


def do_import(src, sid, prop):
    d = os.path.join(SDIR, sid)
    os.makedirs(d, exist_ok=True)
    for f in ("patch.diff", "seed_demo_test.go", "notes.md"):
        if os.path.exists(os.path.join(src, f)):
            shutil.copy(os.path.join(src, f), os.path.join(d, f))
    meta = {"id": sid, "property": prop, "source": "independent sub-agent given only the property text and a scratch worktree",
            "repo_commit": sh(["git", "-C", "/repo", "rev-parse", "--short", "HEAD"]).stdout.strip()}
    wt = worktree(sid)
    try:
        demo = os.path.join(d, "seed_demo_test.go")
        shutil.copy(demo, os.path.join(wt, "seed_demo_test.go"))
        clean = sh("go test -vet=off -count=1 -run 'TestSeedDemo' ./...", cwd=wt)
        meta["demo_passes_without_patch"] = clean.returncode == 0
        ap = sh(["git", "-C", wt, "apply", os.path.join(d, "patch.diff")])
        meta["patch_applies"] = ap.returncode == 0
        if ap.returncode == 0:
            withp = sh("go test -vet=off -count=1 -run 'TestSeedDemo' ./...", cwd=wt)
            meta["demo_fails_with_patch"] = withp.returncode != 0
            os.remove(os.path.join(wt, "seed_demo_test.go"))
            suite = sh("go build ./... && go test -vet=off -count=1 ./...", cwd=wt)
            meta["suite_passes_with_patch"] = suite.returncode == 0
            if suite.returncode != 0:
                meta["suite_output"] = (suite.stdout + suite.stderr)[-400:]
        meta["confirmed"] = bool(meta.get("patch_applies") and meta.get("demo_passes_without_patch") and meta.get("demo_fails_with_patch") and meta.get("suite_passes_with_patch"))
        meta["ran"] = ["go test -run TestSeedDemo (clean worktree of /repo HEAD): pass=%s" % meta.get("demo_passes_without_patch"),
                       "git apply patch.diff: ok=%s" % meta.get("patch_applies"),
                       "go test -run TestSeedDemo (patched): fails=%s" % meta.get("demo_fails_with_patch"),
                       "go test ./... (patched, demo removed): pass=%s" % meta.get("suite_passes_with_patch")]
    finally:
        drop(wt)
    if os.path.exists(os.path.join(d, "notes.md")):
        meta["needs_to_manifest"] = open(os.path.join(d, "notes.md")).read()[:1500]
    json.dump(meta, open(os.path.join(d, "meta.json"), "w"), indent=1)
    print(sid, "confirmed" if meta["confirmed"] else "NOT CONFIRMED", {k: meta.get(k) for k in ("patch_applies", "demo_passes_without_patch", "demo_fails_with_patch", "suite_passes_with_patch")})


def do_run(sid, extra_props=()):
    d = os.path.join(SDIR, sid)
    meta = json.load(open(os.path.join(d, "meta.json")))
    wt = worktree(sid)
    try:
        ap = sh(["git", "-C", wt, "apply", os.path.join(d, "patch.diff")])
        if ap.returncode != 0:
            # later fix: commits touched the same lines; try a three-way merge against the blobs the patch names
            ap = sh(["git", "-C", wt, "apply", "--3way", os.path.join(d, "patch.diff")])
            if ap.returncode == 0 and sh("go build ./...", cwd=wt).returncode != 0:
                ap.returncode = 1
        if ap.returncode != 0:
            meta["applies_to_head"] = False
            meta["head_note"] = "the patch no longer applies to /repo HEAD (a later fix: commit rewrote the lines it edits); the result recorded is the one obtained on the tree it was written for (%s)" % meta.get("repo_commit")
            json.dump(meta, open(os.path.join(d, "meta.json"), "w"), indent=1)
            print(sid, "SKIPPED: patch does not apply to HEAD any more; keeping", meta.get("caught_by"))
            return
        # does the change still do harm on this HEAD? (a later fix: commit may have neutralised it)
        demo = os.path.join(d, "seed_demo_test.go")
        if os.path.exists(demo):
            shutil.copy(demo, os.path.join(wt, "seed_demo_test.go"))
            dr = sh("go test -vet=off -count=1 -run 'TestSeedDemo$' ./...", cwd=wt)
            os.remove(os.path.join(wt, "seed_demo_test.go"))
            if dr.returncode == 0:
                meta["neutralised_on_head"] = True
                meta["head_note"] = "on /repo HEAD the patch applies but its own demonstration passes: a later fix: commit has neutralised the change; the result recorded is the one obtained on the tree it was written for (%s)" % meta.get("repo_commit")
                json.dump(meta, open(os.path.join(d, "meta.json"), "w"), indent=1)
                print(sid, "SKIPPED: neutralised on HEAD (demo passes with the patch); keeping", meta.get("caught_by"))
                return
        res = {}
        caught = None
        for prop in [meta["property"], *extra_props]:
            for tier in ("quick", "thorough"):
                env = dict(ENV, VERIF_REPO=wt, VERIF_WORKTAG=sid)
                c = sh([os.path.join(ROOT, "bin", "vcheck"), "run", prop, "--tier", tier], cwd=ROOT, env=env)
                viol = [l for l in c.stdout.splitlines() if l.startswith("VIOLATION")]
                case = [l.strip() for l in c.stdout.splitlines() if l.strip().startswith("case:")]
                res["%s/%s" % (prop, tier)] = {"rc": c.returncode, "case": case[0][:300] if case else ""}
                shutil.rmtree(os.path.join(ROOT, ".work", prop + "-" + sid), ignore_errors=True)
                if c.returncode == 1 and viol:
                    caught = caught or "%s %s" % (prop, tier)
                    break
                if c.returncode == 2:
                    res["%s/%s" % (prop, tier)]["output"] = (c.stdout + c.stderr)[-500:]
            if caught:
                break
        meta["checks"] = res
        meta["caught_by"] = caught
        json.dump(meta, open(os.path.join(d, "meta.json"), "w"), indent=1)
        print(sid, "CAUGHT by " + caught if caught else "MISSED", json.dumps(res)[:400])
    finally:
        drop(wt)


if __name__ == "__main__":
    if sys.argv[1] == "import":
        do_import(sys.argv[2], sys.argv[3], sys.argv[4])
    else:
        ids = sys.argv[2:] or sorted(d for d in os.listdir(SDIR) if os.path.isdir(os.path.join(SDIR, d)) and d.startswith("S-"))
        for sid in ids:
            do_run(sid)
