#!/bin/sh
# For every fixed finding: check out the parent of its fix commit into a scratch worktree (outside /repo and
# /verif), replay the finding's case against it and expect it to REPRODUCE there (and not on the current tree).
# usage: tools/audit_findings.sh [id ...]
cd "$(dirname "$0")/.." || exit 2
export GOFLAGS=-mod=mod GOPROXY=off GOSUMDB=off GOTOOLCHAIN=local
ids="$*"
python3 - "$ids" <<'PY' > .work/audit.list
import json,sys
want=sys.argv[1].split()
for f in json.load(open('known_findings.json'))['findings']:
    if f['status']=='fixed' and f.get('commit') and (not want or f['id'] in want):
        print(f['id'], f['commit'], f['replay'])
PY
rc=0
while read id commit replay; do
  wt=/tmp/audit-$id
  git -C /repo worktree remove --force $wt >/dev/null 2>&1
  git -C /repo worktree add --detach $wt "$commit^" >/dev/null 2>&1 || { echo "$id: cannot check out $commit^"; rc=1; continue; }
  cp /repo/verif_hooks.go $wt/verif_hooks.go
  out=$(VERIF_REPO=$wt bin/vcheck replay $replay 2>&1); r=$?
  cur=$(bin/vcheck replay $replay 2>&1); rcur=$?
  if [ $r -eq 1 ] && [ $rcur -eq 0 ]; then echo "$id: ok (reproduces before $commit, passes now)"; else echo "$id: UNEXPECTED before=$r now=$rcur"; echo "$out" | tail -3; rc=1; fi
  git -C /repo worktree remove --force $wt >/dev/null 2>&1
  rm -rf $wt
done < .work/audit.list
git -C /repo worktree prune
exit $rc
