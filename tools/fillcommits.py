#!/usr/bin/env python3
"""Fills the commit field of fixed findings from /repo's git log (matching on the 'fix:' subject words quoted in 'what')."""
import json, subprocess, re, os
ROOT=os.path.dirname(os.path.dirname(os.path.abspath(__file__)))
log=subprocess.run(["git","-C","/repo","log","--format=%h\t%s"],capture_output=True,text=True).stdout.splitlines()
fixes=[l.split("\t",1) for l in log if "\tfix:" in l]
k=json.load(open(os.path.join(ROOT,"known_findings.json")))
def norm(s): return re.sub(r"[^a-z0-9 ]","",s.lower())
for f in k["findings"]:
    if f["status"]!="fixed": continue
    body=re.sub(r"^fixed: property=\S+ \S+ ","",f["what"])
    best=None
    for h,s in fixes:
        subj=norm(s[len("fix:"):].strip())
        if norm(body).startswith(subj[:40]) or subj[:40] in norm(body):
            best=h
    if best:
        f["commit"]=best
        f["what"]="fixed: property=%s %s %s"%(f["property"],best,body)
    else:
        print("no commit found for",f["id"])
json.dump(k,open(os.path.join(ROOT,"known_findings.json"),"w"),indent=1)
