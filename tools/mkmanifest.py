#!/usr/bin/env python3
"""Regenerates /verif/MANIFEST.json from the table below (run from /verif)."""
import json, os, subprocess, sys

ROOT = os.path.dirname(os.path.dirname(os.path.abspath(__file__)))

# property -> (technique, level text, level note, design ref)
REF = "Trusts the reference XPath 1.0 evaluator (internal/xref, guarded by the selftest: golden cases, axis partition/duality laws, predicate laws) and the harness navigators; documents are bounded (depth <= 4, fan-out <= 5)."
EXPL = " Exploration is the right level: the property quantifies over unbounded inputs, so generated search with an independent oracle, shrinking and replay is what can decide it in practice; enumerated parts are complete for their stated finite space."

CHECKS = {
 "C01": ("property-based differential testing (rapid) + bounded-exhaustive axis-tuple enumeration against a reference XPath 1.0 evaluator",
         "Random documents x context nodes x predicate-free paths (reference-guided so most results are non-empty) plus a complete enumeration of all axis pairs (quick) / triples (thorough) over fixed rich documents; set(Select) and set(Evaluate) must equal the reference denotation in both directions." + EXPL, REF, "DESIGN.md section 4 C01"),
 "C02": ("property-based differential testing (rapid) against a reference evaluator + engine-only per-candidate oracle",
         "Paths whose steps carry nested boolean predicates (verdict-guided so that mixed verdicts are common) over documents with many candidates sharing ancestors/siblings; the selected set must equal the reference denotation and, independently of the reference, (a) the candidates that a freshly compiled boolean(P) accepts one by one and (b) on small documents the step-by-step evaluation with engine primitives only." + EXPL, REF + " Converted/counted node-sets are flat while KF-A/KF-B are confirmed.", "DESIGN.md section 4 C02"),
 "C03": ("property-based differential testing (rapid) against a reference evaluator",
         "Positional predicates on child steps (incl. after '//', followed by boolean predicates) and (flat)[n] at top level, as path start and inside predicates, over documents whose parents have different fan-out (incl. two-digit positions), plus an exhaustive enumeration of every positional form x n in 1..6 x path shapes on rich documents; set(Select) = reference, (flat)[n] = n-th node in document order." + EXPL, REF, "DESIGN.md section 4 C03"),
 "C04": ("stateful property-based testing (rapid, generated call histories) with a fresh-compile differential oracle",
         "Histories of Select/Evaluate calls (full, abandoned half-way, other contexts, a related or unrelated second document, unrelated recompile in between, evaluations that abort) on ONE compiled expression; after every action the observation must equal that of a freshly compiled expression. A second unit advances two live iterators of one compiled expression in a drawn interleaving (harness-owned schedule)." + EXPL, "Self-differential: trusts the engine on a fresh compile (its values are decided by C01-C03/C07-C09).", "DESIGN.md section 4 C04"),
 "C05": ("property-based stress under the Go race detector (rapid-generated goroutine plans, start barrier) with a sequential differential oracle",
         "2-8 goroutines share one *Expr (Select / Evaluate / Compile of the same text / regex functions / two interleaved iterators); the race detector's log must not grow, the process must survive (crash journal) and every result must equal the sequential one (and, for regex calls on literals, the value Go's regexp computes - what the call returns when run alone in a process). Exploration with sampled schedules is what this technique can give; interleavings are not enumerated.", "Schedules are sampled; a race needing a rare window can be missed. Trusts the Go race detector.", "DESIGN.md section 4 C05"),
 "C06": ("property-based testing with byte-level mutation (rapid) + bounded-exhaustive deep-nesting cases run with a crash journal + native coverage-guided fuzzing (thorough)",
         "Valid/unconstrained/soup expressions with 0-3 byte- or token-level mutations under every namespace configuration; every recursive grammar construct nested to 10^5 (8 MB stack) / 3*10^6 (default stack); alternations of two constructs at depths 2..198 (compile cost must stay polynomial, watchdog); N completed constructs followed by N+250 levels of nesting (depth accounting); every segment of <= 3 lexical chunks repeated 40x (sibling repetition, decided by an allocation budget); every string of <= 3 hostile bytes; go-fuzz in the thorough tier; Compile returns exactly one of (expr, err), nothing panics, the process survives, MustCompile is usable." + EXPL, "Termination is decided within an explicit wall-clock margin with an isolated retry, and for repeated sibling constructs by an allocation budget.", "DESIGN.md section 4 C06"),
 "C07": ("property-based differential testing (rapid) against a reference evaluator",
         "Exactly the operand-type matrix of the statement over documents with numeric, non-numeric, empty and mixed values (incl. NaN/Infinity operands, large node-sets and observable short-circuit), plus the complete enumeration of the matrix over fixed operand lists; Evaluate and the predicate form must equal the reference; no panic." + EXPL, REF, "DESIGN.md section 4 C07"),
 "C08": ("property-based differential testing (rapid) against a reference evaluator with exact float comparison",
         "Arithmetic trees of depth <= 4 over literals, document-derived numbers, NaN/Infinity, mod/floor/ceiling/number/count/sum/string-length and string() of finite small values; bit-exact agreement with the reference." + EXPL, REF + " Same IEEE operations in the same order on both sides.", "DESIGN.md section 4 C08"),
 "C09": ("property-based differential testing (rapid) + exhaustive substring sweep against a reference evaluator",
         "String-function trees of depth <= 4 over an ASCII pool (incl. literals that contain a quote) and flat node-set arguments, the exhaustive enumeration of the two- and three-argument functions over small alphabets, plus the complete sweep of substring(s, start[, length]) for |s| <= 6 and start/length in -3..9 step 0.5." + EXPL, REF, "DESIGN.md section 4 C09"),
 "C10": ("bounded-exhaustive enumeration of operator chains with a parser round-trip oracle (verif hook) + property-based metamorphic testing (whitespace, abbreviations)",
         "All chains over the 14 binary operators up to length 5 (quick) / 6 (thorough), unary-minus placements and path-tier operands, compared with a table-driven reference parse through the parse-tree dump hook; for generated expressions the dump equals the AST, whitespace variants and abbreviation expansions keep dump and value." + EXPL, "Trusts the add-only hook VerifParseDump to render the parse tree faithfully.", "DESIGN.md section 4 C10"),
 "C11": ("property-based differential testing (rapid) on a hostile name alphabet with a multiset oracle",
         "A | B (| C) and p/(s1, s2[, s3]) over documents whose names/values are built to collide under ambiguous identity keys; the multiset of nodes yielded must be the reference set union, each node once." + EXPL, REF + " True 64-bit hash collisions are not searched for.", "DESIGN.md section 4 C11"),
 "C12": ("property-based differential + metamorphic testing (rapid): sequence oracle for flat paths, protocol relations for all node-set expressions",
         "Flat paths must yield the reference's document-order sequence; for any node-set expression Evaluate = Select as sequences, count() = length, reverse() = reversed, MoveNext stays false after exhaustion, Current() is stable and on the reported node." + EXPL, REF, "DESIGN.md section 4 C12"),
 "C13": ("property-based metamorphic testing (rapid), engine against engine, pinned by the reference evaluator",
         "Absolute paths from every start node vs. the root; relative paths vs. addr(n)/p from the root; P[true()], (P), P|P, not(not(P)) identities; all also compared with the reference so a common-mode error cannot pass (paths whose last step carries a positional predicate on any axis take part in the relations only: no property says what they select)." + EXPL, REF, "DESIGN.md section 4 C13"),
 "C14": ("property-based testing (rapid) over namespace configurations with the statement transcribed as oracle",
         "Documents with 0-3 namespaces under varying prefixes x both navigator flavours x namespace maps (none, binding, re-binding, missing, empty, nil) x name tests on all axes and the three name functions; results must follow the documented matching rule, unbound prefixes must be compile errors; nothing is asserted where the statement is silent." + EXPL, REF, "DESIGN.md section 4 C14"),
 "C15": ("property-based testing with an unconstrained expression grammar and token soup (rapid) + exhaustive ill-typed call/operator enumeration + exhaustive pumped predicates under an allocation budget + native fuzzing (thorough), validity-predicate oracle with an operation budget",
         "Whatever Compile accepts is evaluated (Select and Evaluate, drained) on small documents (one in four wide, deep, a chain of 25 levels or attribute-rich; non-ASCII names and values): it must complete or panic with a non-runtime error value, return a documented type, and terminate within a navigator-operation budget (decisive on documents of <= 16 nodes, re-decided on pruned copies otherwise)." + EXPL, "A panic whose value is an error but not a runtime.Error counts as deliberate. KF-round (round() returns int) is a recorded known finding.", "DESIGN.md section 4 C15"),
 "C16": ("property-based differential testing against Go's regexp (rapid) + stateful cache histories with invariants + goroutine block under the race detector",
         "matches()/replace() over a regex grammar with up to 12 groups vs. regexp and a manual expansion, incl. multi-byte subjects, the empty node-set as subject, two resembling patterns in one expression and patterns/replacements taken from the document node by node; cache histories over capacities 0..5 with failing loads and a swapped-in RegexpCache, checked after every step (exact value, bounded size, no load for cached keys, failed loads not remembered); a harness-owned schedule in which all loads are held in their miss window and released in a drawn order; concurrent gets under -race." + EXPL, "Trusts Go's regexp and the verif-tagged cache accessors; schedules are sampled.", "DESIGN.md section 4 C16"),
 "C17": ("property-based testing with exhaustive damage positions (rapid-generated valid expressions, every position of every damage operator)",
         "Every applicable position of every damage class of the statement is applied to generated valid expressions; Compile must return an error. Only damages that are invalid by construction are generated." + EXPL, "Assumes the damage operators are invalid by construction as argued in DESIGN.md.", "DESIGN.md section 4 C17"),
}

NOT_BUILT = "check not built yet in this round (work in progress; decided by generated search as designed in DESIGN.md section 4)"

def main():
    props = [json.loads(l) for l in open(os.path.join(ROOT, "properties.jsonl"))]
    hooks_commits = []
    try:
        out = subprocess.run(["git", "-C", "/repo", "log", "--format=%H %s"], capture_output=True, text=True).stdout
        for line in out.splitlines():
            h, _, s = line.partition(" ")
            if s.startswith("verif:") or s.startswith("hooks:"):
                hooks_commits.append(h)
    except Exception:
        pass
    env = "GOFLAGS=-mod=mod GOPROXY=off GOSUMDB=off GOTOOLCHAIN=local"
    m = {
        "version": 1,
        "setup_cmd": env + " go build -o bin/vcheck ./cmd/vcheck && bin/vcheck selftest",
        "hooks": {
            "guard": "verif",
            "enable": "go test -tags verif (build tag; the driver passes it when it builds ./checks against /repo)",
            "baseline_off_cmd": "cd /repo && go test -vet=off -count=1 ./...",
            "source_commits": hooks_commits,
            "add_only": True,
        },
        "engines": [{
            "name": "vcheck",
            "path": "cmd/vcheck",
            "serves_properties": sorted(CHECKS),
            "kind_free_text": "driver for property-based tests (pgregory.net/rapid v1.3.0), bounded-exhaustive enumerators and native Go fuzz targets in ./checks, with a reference XPath 1.0 evaluator as oracle",
        }],
        "checks": [],
        "not_applicable": [],
        "notes": "Every check rebuilds ./checks from /repo's working tree with -tags verif. Exit 0 = held on everything explored (KNOWN-FINDING lines allowed), 1 = VIOLATION line with replay file, 2 = inconclusive (build failure, infrastructure). VERIF_SEED selects the rapid seeds.",
    }
    for p in props:
        pid = p["id"]
        if pid in CHECKS:
            tech, text, note, ref = CHECKS[pid]
            m["checks"].append({
                "property_id": pid,
                "quick_cmd": "bin/vcheck run %s --tier quick" % pid,
                "thorough_cmd": "bin/vcheck run %s --tier thorough" % pid,
                "evidence_file": "/verif/evidence/%s.json" % pid,
                "replay_cmd_template": "bin/vcheck replay {path}",
                "engine": "vcheck",
                "level_claimed": {"category": "exploration", "text": text, "design_ref": ref},
                "level_note": note,
                "technique": tech,
            })
        else:
            m["not_applicable"].append({"property_id": pid, "reason": NOT_BUILT})
    with open(os.path.join(ROOT, "MANIFEST.json"), "w") as f:
        json.dump(m, f, indent=1)
        f.write("\n")

if __name__ == "__main__":
    main()
