#!/usr/bin/env python3
"""Regenerates /verif/MANIFEST.json from the table below (run from /verif)."""
import json, os, subprocess, sys

ROOT = os.path.dirname(os.path.dirname(os.path.abspath(__file__)))

# property -> (technique, level text, level note, design ref)
CHECKS = {
 "C01": ("property-based differential testing (rapid) + bounded-exhaustive axis-tuple enumeration against a reference XPath 1.0 evaluator",
         "Generated search with an independent reference model: random documents x context nodes x predicate-free paths (reference-guided so most results are non-empty) plus a complete enumeration of all axis pairs (quick) / triples (thorough) over fixed rich documents; set(Select) and set(Evaluate) must equal the reference denotation in both directions. Exploration is the right level: the property quantifies over unbounded inputs, the enumerated part is complete for its stated finite space.",
         "Trusts the reference evaluator (self-tested) and the harness navigators; bounded document sizes.", "DESIGN.md section 4 C01"),
}

NOT_BUILT = "check not built yet in this round (work in progress; decided by generated search as designed in DESIGN.md section 4)"

def main():
    props = [json.loads(l) for l in open(os.path.join(ROOT, "properties.jsonl"))]
    hooks_commits = []
    try:
        out = subprocess.run(["git", "-C", "/repo", "log", "--format=%H %s"], capture_output=True, text=True).stdout
        for line in out.splitlines():
            h, _, s = line.partition(" ")
            if s.startswith("verif:") or s.startswith("hooks:"):
                hooks_commits.append(h)
    except Exception:
        pass
    env = "GOFLAGS=-mod=mod GOPROXY=off GOSUMDB=off GOTOOLCHAIN=local"
    m = {
        "version": 1,
        "setup_cmd": env + " go build -o bin/vcheck ./cmd/vcheck && bin/vcheck selftest",
        "hooks": {
            "guard": "verif",
            "enable": "go test -tags verif (build tag; the driver passes it when it builds ./checks against /repo)",
            "baseline_off_cmd": "cd /repo && go test -vet=off -count=1 ./...",
            "source_commits": hooks_commits,
            "add_only": True,
        },
        "engines": [{
            "name": "vcheck",
            "path": "cmd/vcheck",
            "serves_properties": sorted(CHECKS),
            "kind_free_text": "driver for property-based tests (pgregory.net/rapid v1.3.0), bounded-exhaustive enumerators and native Go fuzz targets in ./checks, with a reference XPath 1.0 evaluator as oracle",
        }],
        "checks": [],
        "not_applicable": [],
        "notes": "Every check rebuilds ./checks from /repo's working tree with -tags verif. Exit 0 = held on everything explored (KNOWN-FINDING lines allowed), 1 = VIOLATION line with replay file, 2 = inconclusive (build failure, infrastructure). VERIF_SEED selects the rapid seeds.",
    }
    for p in props:
        pid = p["id"]
        if pid in CHECKS:
            tech, text, note, ref = CHECKS[pid]
            m["checks"].append({
                "property_id": pid,
                "quick_cmd": "bin/vcheck run %s --tier quick" % pid,
                "thorough_cmd": "bin/vcheck run %s --tier thorough" % pid,
                "evidence_file": "/verif/evidence/%s.json" % pid,
                "replay_cmd_template": "bin/vcheck replay {path}",
                "engine": "vcheck",
                "level_claimed": {"category": "exploration", "text": text, "design_ref": ref},
                "level_note": note,
                "technique": tech,
            })
        else:
            m["not_applicable"].append({"property_id": pid, "reason": NOT_BUILT})
    with open(os.path.join(ROOT, "MANIFEST.json"), "w") as f:
        json.dump(m, f, indent=1)
        f.write("\n")

if __name__ == "__main__":
    main()
