#!/bin/sh
# usage: tools/try_seed.sh <seeded-id|patch-file> <property> [tier]   run one property's check against /repo HEAD + patch (scratch worktree)
cd "$(dirname "$0")/.." || exit 2
export GOFLAGS=-mod=mod GOPROXY=off GOSUMDB=off GOTOOLCHAIN=local VERIF_NO_REGRESSION=1
patch="$1"; [ -f "$patch" ] || patch="seeded/$1/patch.diff"
wt=/tmp/tryseed-$$
git -C /repo worktree add --detach $wt HEAD >/dev/null 2>&1 || exit 2
git -C $wt apply "$(realpath $patch)" || { git -C /repo worktree remove --force $wt; exit 2; }
VERIF_REPO=$wt VERIF_WORKTAG=try$$ bin/vcheck run "$2" --tier "${3:-quick}" 2>&1 | grep -A4 "case:\|^OK\|^VIOL\|INCONC" | cut -c1-300 | head -12
git -C /repo worktree remove --force $wt; rm -rf $wt .work/$2-try$$; git -C /repo worktree prune
